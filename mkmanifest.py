#!/usr/bin/env python3
"""Generates MANIFEST.json from the table below (kept in one place so it stays valid)."""
import json, os
V = os.path.dirname(os.path.abspath(__file__))
ENGINE = "simrt+simgen+harness"
SIM = "deterministic simulation"
CHECKS = {
 "C01": ("exploration", SIM + ": seeded multi-session histories at tracker API, real Read loop and assembled daemon; identity oracle against the emitted/forwarded login",
         "Every UserAction's identity is compared with the login whose PID is in the LOGIN record of the event's session, over seeded multi-session histories with every login split point, cleanup placements and fake-clock gaps, at three levels (tracker API; real Read + parser + reassembler + tickers; cmd.RunNamedPipe on simulated FIFOs with taped chunking, short reads, buffer sizes and schedules).", "§9 C01"),
 "C02": ("exploration", SIM + ": same histories; per-session emitted sequence must equal LOGIN..CRED_DISP once each in order, login swept over every split point",
         "Per correlated session the emitted UserActions (mapped to kernel events by timestamp) must be exactly the delivered events from the LOGIN record to credential disposal, once, in order; the login position of one session is swept systematically over all split points.", "§9 C02"),
 "C03": ("exploration", SIM + ": seeded scheduler at lock granularity over the real tracker, sequential-orders oracle, race detector under the same schedules",
         "Small concurrent programs over the real tracker under a systematic single-preemption sweep plus PCT/random schedules at lock granularity; each outcome must equal that of some sequential order of the same deliveries (real code as its own sequential specification); deadlock and panic detection; the same schedules under the race detector with the scheduler hidden from it.", "§9 C03"),
 "C04": ("exploration", SIM + ": histories mixing correlated and uncorrelated traffic; online monitor evaluated after every delivery / scheduler step",
         "Histories mix ssh sessions with cron sessions, orphan sessions, logins without session, records without/with unset session and events after credential disposal; a monitor evaluated after every delivery (L1) or scheduler step (L2/L3) allows a UserAction only if the LOGIN record and the matching ssh login were already handed to the daemon and the identity is that login's.", "§9 C04"),
 "C09": ("exploration", SIM + ": PID-reuse histories through tracker API and real Read loop with taped map-iteration order",
         "Session A ends (all record/login orders, in particular all records before the login), then the same PID opens session B (all orders), optional stray late event of A; B's events must be emitted with B's identity, A is never re-bound; map iteration order is a taped choice.", "§9 C09"),
 "C16": ("exploration", SIM + ": fake-clock histories with cleanup cut-offs between arrivals (API) and the real one-minute ticker of Read over simulated minutes",
         "L1: cleanup calls with cut-offs strictly between arrival instants against a small reference model of the statement; L2: the real Read loop with its real ticker in simulated time, gaps 1..59 s must correlate, gaps > 120 s must not, 60..120 s not judged, a correlated session must survive.", "§9 C16"),
}
NOTE = "sampling, not enumeration; interleavings at synchronisation-operation granularity; Go 1.26.8 runtime + testing/synctest fake clock; simgen rewrite rules; SimPipe/SimDisk/world-model fidelity (DESIGN.md §16)"
NA = {
 "C06": "pure function of one input line (regex + struct constructors): no schedule, clock, fault or history can change its verdict; see DESIGN.md §10",
 "C17": "adversary acts only through the content of one well-formed line: input generation, not simulation; see DESIGN.md §10",
 "C19": "counter delta is a function of the single line processed by a single goroutine; no schedule or fault can change the verdict; see DESIGN.md §10",
}
PENDING = "check not built yet in this session (planned, see DESIGN.md §9/§18); not claimed until its check exists"
ids = [json.loads(l)["id"] for l in open(os.path.join(V, "properties.jsonl"))]
checks = []
for pid in ids:
    if pid in CHECKS:
        level, tech, text, ref = CHECKS[pid]
        checks.append({
            "property_id": pid,
            "quick_cmd": "./check %s --tier quick" % pid,
            "thorough_cmd": "./check %s --tier thorough" % pid,
            "evidence_file": "evidence/%s.json" % pid,
            "replay_cmd_template": "./check %s --replay {path}" % pid,
            "engine": ENGINE,
            "technique": tech,
            "level_claimed": {"category": level, "text": text, "design_ref": "DESIGN.md " + ref},
            "level_note": NOTE,
        })
na = []
for pid in ids:
    if pid in CHECKS:
        continue
    na.append({"property_id": pid, "reason": NA.get(pid, PENDING)})
m = {
 "version": 1,
 "setup_cmd": "./setup.sh",
 "hooks": {
  "guard": "verif-overlay (no hooks are committed to /repo: every seam is generated at check time by sim/simgen into a `go build -overlay`)",
  "enable": "./check builds /repo's current working tree with `go1.26.8 test -c -overlay <generated>/overlay.json`; simgen rewrites locks, channel operations, select, go statements, errgroup, map ranges and the pipe/output I/O calls into calls of sim/simrt (overlaid as internal/simrt)",
  "baseline_off_cmd": "cd /repo && GOFLAGS=-mod=mod go test -json -vet=off -count=1 -timeout 25m ./...",
  "source_commits": [],
  "add_only": True,
 },
 "engines": [{"name": ENGINE, "path": "sim/", "serves_properties": sorted(CHECKS), "kind_free_text": "deterministic simulator: seeded cooperative scheduler over the testing/synctest fake clock, taped choices (one integer per run), simulated FIFOs / output file / directory, world models of sshd, kernel audit and rsyslog, AST-rewritten seams via build overlay, tape shrinking and replay"}],
 "checks": checks,
 "not_applicable": na,
 "notes": "fix commits in /repo found by these checks are listed in known_findings.json (status fixed).",
}
json.dump(m, open(os.path.join(V, "MANIFEST.json"), "w"), indent=1)
print("claimed", len(checks), "n/a", len(na))
