#!/usr/bin/env python3
"""seedtest.py <worktree-dir> <mutantN> <seed-id> [--checks C01,C02,...]

Confirms a seeded change delivered by a sub-agent (builds, existing suite passes, demo fails
with it and passes without) in a scratch worktree, then applies it to /repo, runs the given
checks (default: the property's own check), undoes it, and stores everything under
/verif/seeded/<seed-id>/ (patch.diff, demo/, meta.json)."""
import sys, os, json, subprocess, shutil, tempfile, time
V = os.path.dirname(os.path.abspath(__file__))
ENV = dict(os.environ, GOFLAGS="-mod=mod", GOPROXY="off", GOSUMDB="off")

def sh(cmd, cwd=None, timeout=1800):
    r = subprocess.run(cmd, shell=True, cwd=cwd, env=ENV, stdout=subprocess.PIPE, stderr=subprocess.STDOUT, text=True, timeout=timeout)
    return r.returncode, r.stdout

def main():
    wt, mut, sid = sys.argv[1], sys.argv[2], sys.argv[3]
    checks = None
    if "--checks" in sys.argv:
        checks = sys.argv[sys.argv.index("--checks") + 1].split(",")
    mdir = os.path.join(wt, mut)
    meta = json.load(open(os.path.join(mdir, "meta.json")))
    prop = meta["property"]
    patch = os.path.join(mdir, "patch.diff")
    scratch = tempfile.mkdtemp(prefix="seedconfirm-")
    res = {"seed": sid, "property": prop, "confirmed": {}}
    try:
        rc, out = sh("git -C /repo worktree add -q --detach %s HEAD" % scratch)
        if rc != 0:
            print(out); sys.exit(2)
        # demo without patch
        demo_to = meta.get("demo_copy_to")
        demo_src = None
        for f in os.listdir(os.path.join(mdir, "demo")):
            if f.endswith(".go") or f.endswith(".go.txt"):
                demo_src = os.path.join(mdir, "demo", f)
        placed = []
        def put_demo():
            if demo_src and demo_to:
                dst = os.path.join(scratch, demo_to)
                if not demo_to.endswith(".go"):
                    base = os.path.basename(demo_src)
                    if base.endswith(".txt"):
                        base = base[:-4]
                    dst = os.path.join(dst, base)
                os.makedirs(os.path.dirname(dst), exist_ok=True)
                shutil.copy(demo_src, dst)
                placed.append(dst)
        def rm_demo():
            for d in placed:
                if os.path.exists(d):
                    os.remove(d)
            placed.clear()
        put_demo()
        rc, out = sh(meta["demo_cmd"], cwd=scratch)
        res["confirmed"]["demo_passes_without_patch"] = rc == 0
        rm_demo()
        rc, out = sh("git apply %s" % patch, cwd=scratch)
        res["confirmed"]["patch_applies"] = rc == 0
        rc, out = sh("go build ./...", cwd=scratch)
        res["confirmed"]["builds"] = rc == 0
        rc, out = sh("go test -vet=off -count=1 ./...", cwd=scratch)
        res["confirmed"]["suite_passes_with_patch"] = rc == 0
        if rc != 0:
            res["suite_output"] = out[-1500:]
        put_demo()
        rc, out = sh(meta["demo_cmd"], cwd=scratch)
        res["confirmed"]["demo_fails_with_patch"] = rc != 0
        rm_demo()
    finally:
        sh("git -C /repo worktree remove --force %s" % scratch)
        shutil.rmtree(scratch, ignore_errors=True)
    ok = all(res["confirmed"].values())
    res["all_confirmed"] = ok
    # run checks against /repo with the patch applied
    results = {}
    scratch_mode = os.environ.get("SEEDTEST_SCRATCH") == "1"
    if ok and scratch_mode:
        # the checks run against a scratch worktree that carries the change (VERIF_REPO), so that
        # /repo itself stays free for other runs; same harness, same commands otherwise
        sw = tempfile.mkdtemp(prefix="seedscratch-")
        sh("git -C /repo worktree add -q --detach %s HEAD" % sw)
        sh("git apply %s" % patch, cwd=sw)
        try:
            for c in (checks or [prop]):
                t0 = time.time()
                rc, out = sh("VERIF_REPO=%s ./check %s --no-evidence --workers 6" % (sw, c), cwd=V, timeout=3600)
                viol = [l for l in out.splitlines() if l.startswith("VIOLATION")]
                results[c] = {"exit": rc, "violations": len(viol), "wall_s": round(time.time() - t0, 1),
                              "first": (viol[0] if viol else ""), "detail": next((l[:400] for l in out.splitlines() if l.startswith("violation detail")), "")}
        finally:
            sh("git -C /repo worktree remove --force %s" % sw)
            shutil.rmtree(sw, ignore_errors=True)
    elif ok:
        rc, out = sh("git -C /repo status --porcelain")
        if out.strip():
            print("refusing: /repo has uncommitted changes"); sys.exit(2)
        rc, out = sh("git -C /repo apply %s" % patch)
        try:
            for c in (checks or [prop]):
                t0 = time.time()
                rc, out = sh("./check %s --no-evidence" % c, cwd=V, timeout=3600)
                viol = [l for l in out.splitlines() if l.startswith("VIOLATION")]
                results[c] = {"exit": rc, "violations": len(viol), "wall_s": round(time.time() - t0, 1),
                              "first": (viol[0] if viol else ""), "detail": next((l[:400] for l in out.splitlines() if l.startswith("violation detail")), "")}
        finally:
            sh("git -C /repo checkout -- .")
            sh("git -C /repo clean -fdq")
            # drop the replay files produced against the seeded tree
            for l in os.listdir(os.path.join(V, "replays")):
                if l.endswith(".json"):
                    os.remove(os.path.join(V, "replays", l))
    res["checks"] = results
    res["detected_by"] = sorted(c for c, r in results.items() if r["exit"] == 1)
    # store
    sd = os.path.join(V, "seeded", sid)
    shutil.rmtree(sd, ignore_errors=True)
    os.makedirs(sd)
    shutil.copy(patch, os.path.join(sd, "patch.diff"))
    shutil.copytree(os.path.join(mdir, "demo"), os.path.join(sd, "demo"))
    meta.update({"seed_id": sid, "breaks_property": prop, "what_i_ran": {
        "confirmation": "scratch worktree of /repo HEAD: demo without patch; git apply; go build ./...; go test -vet=off -count=1 ./... ; demo with patch",
        "checks": ("scratch worktree of /repo HEAD with patch.diff applied; VERIF_REPO=<worktree> ./check <id> --no-evidence (quick tier)" if os.environ.get("SEEDTEST_SCRATCH") == "1" else "git -C /repo apply patch.diff; ./check <id> --no-evidence (quick tier); git -C /repo checkout -- .")},
        "confirmed": res["confirmed"], "check_results": results, "detected_by": res["detected_by"]})
    json.dump(meta, open(os.path.join(sd, "meta.json"), "w"), indent=1)
    print(json.dumps({k: res[k] for k in ("seed", "property", "confirmed", "detected_by")}, indent=None))
    for c, r in results.items():
        print("  ", c, r["exit"], r["violations"], r["wall_s"], r["detail"][:250])

if __name__ == "__main__":
    main()
