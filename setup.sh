#!/bin/sh
# Builds the verification framework from files on disk only (offline).
set -e
cd "$(dirname "$0")"
export GOFLAGS=-mod=mod GOPROXY=off GOSUMDB=off GOTOOLCHAIN=local
exec python3 ./selftest setup
