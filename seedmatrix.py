#!/usr/bin/env python3
"""seedmatrix.py [--seeds a,b,..] [--checks C01,..] [--out file]

Runs every registered quick check against every seeded change, each in a scratch worktree of
/repo HEAD with the patch applied (VERIF_REPO points the check at it, /repo is untouched).
Writes the matrix to seeded/MATRIX.json: rows = seeds, columns = checks, cell = exit code
(1 = violation reported, 0 = held, 2 = could not build/run)."""
import sys, os, json, subprocess, shutil, tempfile, time
V = os.path.dirname(os.path.abspath(__file__))
def arg(name, default=None):
    return sys.argv[sys.argv.index(name) + 1] if name in sys.argv else default
m = json.load(open(os.path.join(V, "MANIFEST.json")))
checks = (arg("--checks") or ",".join(c["property_id"] for c in m["checks"])).split(",")
seeds = sorted(os.listdir(os.path.join(V, "seeded")))
seeds = [s for s in seeds if os.path.isdir(os.path.join(V, "seeded", s))]
if arg("--seeds"):
    seeds = arg("--seeds").split(",")
out = arg("--out", os.path.join(V, "seeded", "MATRIX.json"))
matrix = {}
if os.path.exists(out):
    matrix = json.load(open(out)).get("matrix", {})
for s in seeds:
    scratch = tempfile.mkdtemp(prefix="seedmatrix-")
    try:
        subprocess.run("git -C /repo worktree add -q --detach %s HEAD" % scratch, shell=True, check=True)
        r = subprocess.run("git apply %s" % os.path.join(V, "seeded", s, "patch.diff"), shell=True, cwd=scratch)
        if r.returncode != 0:
            matrix[s] = {"error": "patch does not apply"}
            continue
        row = matrix.get(s, {})
        for c in checks:
            t0 = time.time()
            r = subprocess.run("./check %s --no-evidence --workers 8" % c, shell=True, cwd=V, env=dict(os.environ, VERIF_REPO=scratch),
                               stdout=subprocess.PIPE, stderr=subprocess.STDOUT, text=True)
            row[c] = r.returncode
            print(s, c, r.returncode, "%.1fs" % (time.time() - t0), flush=True)
        matrix[s] = row
        json.dump({"matrix": matrix, "legend": "1 = VIOLATION reported, 0 = held, 2 = check could not build/run on that tree"}, open(out, "w"), indent=1)
    finally:
        subprocess.run("git -C /repo worktree remove --force %s" % scratch, shell=True)
        shutil.rmtree(scratch, ignore_errors=True)
for f in os.listdir(os.path.join(V, "replays")):
    if f.endswith(".json"):
        os.remove(os.path.join(V, "replays", f))
