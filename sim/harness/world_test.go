package verifsim

import (
	"fmt"
	"testing"

	"github.com/metal-toolbox/audito-maldito/internal/simrt"
)

// TestWorldModels validates the kernel-audit world model against the real auparse /
// aucoalesce code: every generated event parses, coalesces into one event and yields the
// session, PID, type and result the generator claims as ground truth.
func TestWorldModels(t *testing.T) {
	tape := simrt.NewTape(7)
	k := NewKaudit()
	var evs []*KEvent
	for i := 0; i < 300; i++ {
		ses := fmt.Sprint(100 + i%7)
		if i%11 == 0 {
			ses = ""
		}
		if i%13 == 0 {
			ses = "4294967295"
		}
		evs = append(evs, GenAction(tape, k, ses, 2000+i, 1000+i%5))
	}
	evs = append(evs, k.AVC("78", 4343, 1000))
	evs = append(evs, k.Login("77", 4242, 1000), k.UserMsg("CRED_DISP", "77", 4242, 1000, true, 0),
		k.UserMsg("USER_END", "77", 4242, 1000, false, 1))
	for _, e := range evs {
		ce, err := e.Coalesce()
		if err != nil {
			t.Fatalf("%v: %v", e.Lines, err)
		}
		wantSes := e.Ses
		if wantSes == "4294967295" {
			wantSes = "unset"
		}
		if ce.Session != wantSes {
			t.Errorf("session: got %q want %q for %v", ce.Session, wantSes, e.Lines[0])
		}
		if ce.Process.PID != fmt.Sprint(e.PID) {
			t.Errorf("pid: got %q want %d for %v", ce.Process.PID, e.PID, e.Lines[0])
		}
		if e.Type != "AVC" && ce.Type.String() != e.Type {
			t.Errorf("type: got %q want %q", ce.Type.String(), e.Type)
		}
		wantRes := "fail"
		if e.Success {
			wantRes = "success"
		}
		if e.NoResult {
			if ce.Result == "success" {
				t.Errorf("a record without result field coalesced to success: %v", e.Lines[0])
			}
		} else if ce.Result != wantRes {
			t.Errorf("result: got %q want %q for %v", ce.Result, wantRes, e.Lines[0])
		}
		if !ce.Timestamp.Equal(e.TS) {
			t.Errorf("timestamp: got %v want %v", ce.Timestamp, e.TS)
		}
		if len(e.Args) > 0 && fmt.Sprint(ce.Process.Args) != fmt.Sprint(e.Args) {
			t.Errorf("args: got %v want %v", ce.Process.Args, e.Args)
		}
		if testing.Verbose() && e.Seq < 30012 {
			t.Logf("%s ses=%q res=%q summary=%+v args=%v", e.Type, ce.Session, ce.Result, ce.Summary, ce.Process.Args)
		}
	}
}
