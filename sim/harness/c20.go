package verifsim

import (
	"context"
	"errors"
	"fmt"
	"io"
	"io/fs"
	"os"
	"sort"
	"strings"
	"syscall"
	"time"

	"github.com/fsnotify/fsnotify"

	"github.com/metal-toolbox/audito-maldito/internal/simrt"
	"github.com/metal-toolbox/audito-maldito/processors/auditd/dirreader"
)

// C20: the directory reader delivers each complete line exactly once, oldest first.
// SimFS + SimWatcher: an in-memory directory whose mutations enqueue the fsnotify events
// the kernel would produce; the driver delivers one change at a time and runs the reader
// to quiescence before the next change (the property's proviso).

func init() {
	register(&propDef{
		ID: "C20", Level: "exploration",
		Families: []family{
			{Name: "dir-histories", Fn: scnC20, Weight: 1},
		},
		Rule: "initial directory with 0-12 rotated files audit.log.N (N up to 999, non-contiguous, incl. >= 10 files and two/three-digit suffixes) plus the live file (absent in one start in eight, then created during or after the initial read), 0-5 lines each (one in twelve ending in a carriage return of its own), optional partial tail; " +
			"then 1-25 operations from {append k complete lines, append a prefix of a line, complete it, rotate (rename chain + create), truncate to zero, append a line longer than the read buffer, an event (write/create/chmod/remove/rename) for another file of the directory incl. rotated siblings audit.log.N / .gz / .bak, an attribute change (chmod) of the live file, one failing open (EMFILE) followed by the reader's own retry}, " +
			"each followed by its file-system events and a run to quiescence; read-buffer knob {16,64,4096}; a consumer task drains Lines() (it may stall for 3-4 simulated seconds during the initial read or inside a batch); " +
			"non-trivial = at least one rotation or truncation or partial append and at least 2 rotated files; distinct = distinct (history hash, schedule hash)",
		Quick: 8000, Thorough: 250000,
	})
}

// ---- SimFS ----

type memFS struct {
	files        map[string][]byte
	opens        int
	failNextOpen error // the next Open fails with this error, once (a transient fault)
}

type memInfo struct {
	name string
	size int64
}

func (i memInfo) Name() string       { return i.name }
func (i memInfo) Size() int64        { return i.size }
func (i memInfo) Mode() fs.FileMode  { return 0o640 }
func (i memInfo) ModTime() time.Time { return time.Time{} }
func (i memInfo) IsDir() bool        { return false }
func (i memInfo) Sys() any           { return nil }

type memEntry struct{ name string }

func (e memEntry) Name() string               { return e.name }
func (e memEntry) IsDir() bool                { return false }
func (e memEntry) Type() fs.FileMode          { return 0 }
func (e memEntry) Info() (fs.FileInfo, error) { return memInfo{name: e.name}, nil }

type memFile struct {
	fs   *memFS
	path string
	off  int64
}

//go:norace
func (m *memFS) Open(p string) (dirreader.SimFile, error) {
	m.opens++
	if err := m.failNextOpen; err != nil {
		m.failNextOpen = nil
		return nil, &fs.PathError{Op: "open", Path: p, Err: err}
	}
	if _, ok := m.files[p]; !ok {
		return nil, &fs.PathError{Op: "open", Path: p, Err: fs.ErrNotExist}
	}
	return &memFile{fs: m, path: p}, nil
}

//go:norace
func (f *memFile) Stat() (fs.FileInfo, error) {
	b, ok := f.fs.files[f.path]
	if !ok {
		return nil, &fs.PathError{Op: "stat", Path: f.path, Err: fs.ErrNotExist}
	}
	return memInfo{name: f.path, size: int64(len(b))}, nil
}

//go:norace
func (f *memFile) Read(p []byte) (int, error) {
	b := f.fs.files[f.path]
	if f.off >= int64(len(b)) {
		return 0, io.EOF
	}
	n := copy(p, b[f.off:])
	f.off += int64(n)
	return n, nil
}

//go:norace
func (f *memFile) Seek(off int64, whence int) (int64, error) {
	switch whence {
	case io.SeekStart:
		f.off = off
	case io.SeekCurrent:
		f.off += off
	case io.SeekEnd:
		f.off = int64(len(f.fs.files[f.path])) + off
	}
	if f.off < 0 {
		return 0, errors.New("negative offset")
	}
	return f.off, nil
}

func (f *memFile) Close() error { return nil }

type lineSink struct{ got []string }

//go:norace
func (l *lineSink) add(s string) { l.got = append(l.got, s) }

func scnC20(rc *RunCtx) {
	t := rc.Spec
	dir := "/var/log/audit"
	live := dir + "/audit.log"
	mfs := &memFS{files: map[string][]byte{}}
	bufsz := []int{4096, 16, 64}[t.Choose(3, "bufio")]
	rc.Sim.Knobs["bufio"] = bufsz
	lineNo := 0
	mkLine := func(long bool) string {
		lineNo++
		s := fmt.Sprintf("type=USER_START msg=audit(%d.000:%d): line %d", 1668460000+lineNo, lineNo, lineNo)
		if long {
			s += " " + strings.Repeat("x", bufsz+t.Choose(2*bufsz, "longby"))
		}
		if t.Choose(12, "cr") == 11 {
			// the line's own last byte is a carriage return (a CRLF writer, or binary content): it is
			// part of the line, only the newline is the terminator
			s += "\r"
			rc.Sim.Count("fs.line_ending_in_cr")
		}
		return s
	}
	var expect []string
	// initial rotated files: distinct suffixes, larger suffix = older
	nrot := t.Choose(13, "nrot")
	sufSet := map[int]bool{}
	for len(sufSet) < nrot {
		var s int
		switch t.Choose(3, "sufkind") {
		case 0:
			s = 1 + t.Choose(9, "suf1")
		case 1:
			s = 10 + t.Choose(90, "suf2")
		default:
			s = 100 + t.Choose(900, "suf3")
		}
		if nrot >= 10 && len(sufSet) < nrot {
			// make sure contiguous 1..n appear often (the logrotate layout)
			if t.Choose(2, "contig") == 0 {
				s = len(sufSet) + 1
			}
		}
		for sufSet[s] {
			s++ // next unused suffix (keeps generation total under a zeroed replay tape)
		}
		sufSet[s] = true
	}
	var sufs []int
	for s := range sufSet {
		sufs = append(sufs, s)
	}
	sort.Sort(sort.Reverse(sort.IntSlice(sufs))) // oldest (largest) first
	var entries []os.DirEntry
	for _, s := range sufs {
		name := fmt.Sprintf("audit.log.%d", s)
		var b []byte
		for i, n := 0, t.Choose(6, "nlines"); i < n; i++ {
			l := mkLine(false)
			expect = append(expect, l)
			b = append(b, (l + "\n")...)
		}
		mfs.files[dir+"/"+name] = b
		entries = append(entries, memEntry{name})
	}
	hasLive := nrot == 0 || t.Choose(8, "nolive") != 0
	partial := ""
	if hasLive {
		var b []byte
		for i, n := 0, t.Choose(6, "nlines"); i < n; i++ {
			l := mkLine(t.Choose(8, "long") == 0)
			expect = append(expect, l)
			b = append(b, (l + "\n")...)
		}
		if t.Choose(4, "partial0") == 0 {
			partial = mkLine(false)
			cut := 1 + t.Choose(len(partial)-1, "cut")
			b = append(b, partial[:cut]...)
			partial = partial[cut:]     // what is still missing
			expect = append(expect, "") // placeholder, completed below
		}
		mfs.files[live] = b
		entries = append(entries, memEntry{"audit.log"})
	}
	// other files in the directory that must be ignored
	if t.Choose(3, "other") == 0 {
		entries = append(entries, memEntry{"other.log"})
		mfs.files[dir+"/other.log"] = []byte("not an audit log\n")
	}
	// the directory listing is in lexical order (os.ReadDir sorts by name)
	sort.Slice(entries, func(i, j int) bool { return entries[i].Name() < entries[j].Name() })
	pendingIdx := -1
	pendingFull := ""
	if partial != "" {
		pendingIdx = len(expect) - 1
		// reconstruct the full line text
		b := mfs.files[live]
		i := strings.LastIndexByte(string(b), '\n')
		pendingFull = string(b[i+1:]) + partial
	}

	ctx, cancel := context.WithCancel(context.Background())
	rc.Cleanup(cancel)
	events := make(chan fsnotify.Event)
	sink := &lineSink{}
	r := dirreader.SimStartLogDirReader(ctx, dir, entries, events, mfs)
	rc.Sim.Spawn("consumer", func() {
		for {
			c0, c1 := simrt.Recv(r.Lines()), simrt.Recv(ctx.Done())
			if simrt.Select("consumer", false, c0, c1) != 0 {
				return
			}
			sink.add(c0.Val)
		}
	})
	pipelinePolicy(rc)
	settle := func() bool {
		for i := 0; i < 30; i++ {
			why := rc.Sim.RunUntil(nil, 300000)
			if why == "budget" {
				return false
			}
			// quiescent: nothing ready; if a back-off timer is pending advance the clock
			time.Sleep(50 * time.Millisecond)
			if rc.Sim.RunUntil(nil, 300000) == "budget" {
				return false
			}
			if len(rc.Sim.Ready()) == 0 && i >= 1 {
				return true
			}
		}
		return true
	}
	deliver := func(op fsnotify.Op, name string) bool {
		sent := &doneFlag{}
		rc.Sim.Spawn(fmt.Sprintf("world.fsevent%d", rc.Sim.Steps), func() {
			simrt.ChanSend(events, fsnotify.Event{Name: name, Op: op}, "world.fsevent")
			sent.set(nil)
		})
		ok := settle()
		return ok && sent.v
	}
	var ops []string
	// early change: the live file is appended to (and its WRITE event delivered) while the
	// initial read of that file is still in progress because the consumer is slow
	if hasLive && pendingIdx < 0 && len(mfs.files[live]) > 0 && t.Choose(3, "early.append") == 0 {
		liveLines := strings.Count(string(mfs.files[live]), "\n")
		stallAt := len(expect) - liveLines + t.Choose(liveLines, "early.stall.at")
		rc.Sim.Frozen = func(name string) bool { return name == "consumer" && len(sink.got) >= stallAt }
		settle()
		if t.Choose(2, "early.stall.long") == 1 {
			// the consumer is stuck for seconds: the initial read takes that long
			time.Sleep(4 * time.Second)
			settle()
			rc.Sim.Count("fs.initial_read_stalled_for_seconds")
		}
		l := mkLine(false)
		expect = append(expect, l)
		mfs.files[live] = append(mfs.files[live], (l + "\n")...)
		ops = append(ops, "append-during-initial-read")
		rc.Sim.Count("fs.append_during_initial_read")
		sent := &doneFlag{}
		rc.Sim.Spawn("world.fsevent-early", func() {
			simrt.ChanSend(events, fsnotify.Event{Name: live, Op: fsnotify.Write}, "world.fsevent")
			sent.set(nil)
		})
		settle()
		rc.Sim.Frozen = nil
		if !settle() || !sent.v {
			rc.Abort("early event not consumed: %v", rc.Sim.Live())
			return
		}
	}
	// started in the middle of a rotation: only rotated files are there, and the new live file is
	// created (its CREATE event delivered) while the initial read is still in progress
	if !hasLive && len(expect) > 0 && t.Choose(3, "early.create") == 1 {
		stallAt := t.Choose(len(expect), "early.stall.at")
		rc.Sim.Frozen = func(name string) bool { return name == "consumer" && len(sink.got) >= stallAt }
		settle()
		mfs.files[live] = nil
		ops = append(ops, "create-during-initial-read")
		rc.Sim.Count("fs.create_during_initial_read")
		sent := &doneFlag{}
		rc.Sim.Spawn("world.fsevent-early", func() {
			simrt.ChanSend(events, fsnotify.Event{Name: live, Op: fsnotify.Create}, "world.fsevent")
			sent.set(nil)
		})
		settle()
		rc.Sim.Frozen = nil
		if !settle() || !sent.v {
			rc.Abort("early event not consumed: %v", rc.Sim.Live())
			return
		}
	}
	if !settle() {
		rc.Abort("initial read did not settle: %v", rc.Sim.Live())
		return
	}
	nops := 1 + t.Choose(25, "nops")
	nontrivialOp := false
	appendBytes := func(b string) { mfs.files[live] = append(mfs.files[live], b...) }
	for i := 0; i < nops && !rc.Failed(); i++ {
		kind := t.Choose(6, "op")
		if _, ok := mfs.files[live]; !ok && kind != 3 {
			// no live file yet: create it empty first
			mfs.files[live] = nil
			ops = append(ops, "create")
			if !deliver(fsnotify.Create, live) {
				rc.Abort("event not consumed: %v", rc.Sim.Live())
				return
			}
		}
		switch kind {
		case 0, 1: // append k complete lines (completing a pending partial first)
			var sb strings.Builder
			if pendingIdx >= 0 {
				sb.WriteString(partial + "\n")
				expect[pendingIdx] = pendingFull
				pendingIdx, partial = -1, ""
			}
			k := 1 + t.Choose(4, "k")
			for j := 0; j < k; j++ {
				l := mkLine(kind == 1 && t.Choose(3, "long") == 0)
				expect = append(expect, l)
				sb.WriteString(l + "\n")
			}
			appendBytes(sb.String())
			ops = append(ops, fmt.Sprintf("append(%d lines)", k))
			if t.Choose(10, "open.fails.once") == 9 {
				// a transient fault: the open that this event triggers fails once (too many open
				// files), the reader's retry finds the same file
				mfs.failNextOpen = syscall.EMFILE
				ops = append(ops, "open-fails-once")
				rc.Sim.Count("fs.open_error_once")
				nontrivialOp = true
			}
			failed := mfs.failNextOpen != nil
			slow := !failed && k >= 2 && t.Choose(6, "slow.consumer") == 5
			if slow {
				// the consumer takes the first line of this batch and then nothing for three seconds
				at := len(sink.got) + 1
				rc.Sim.Frozen = func(name string) bool { return name == "consumer" && len(sink.got) >= at }
				ops = append(ops, "consumer-stalls-3s")
				rc.Sim.Count("fs.consumer_stalled_inside_batch")
			}
			if !deliver(fsnotify.Write, live) {
				rc.Abort("event not consumed: %v", rc.Sim.Live())
				return
			}
			if slow {
				time.Sleep(3 * time.Second)
				settle()
				rc.Sim.Frozen = nil
				settle()
			}
			if failed {
				// the reader retries after a back-off of its own: give it simulated time
				for i := 0; i < 8; i++ {
					time.Sleep(500 * time.Millisecond)
					settle()
				}
			}
		case 2: // partial append
			if pendingIdx >= 0 {
				// extend the partial by a few bytes, still no newline
				if len(partial) > 1 {
					cut := 1 + t.Choose(len(partial)-1, "cut2")
					appendBytes(partial[:cut])
					partial = partial[cut:]
				}
			} else {
				full := mkLine(t.Choose(4, "long") == 0)
				cut := 1 + t.Choose(len(full)-1, "cut")
				appendBytes(full[:cut])
				pendingFull, partial = full, full[cut:]
				expect = append(expect, "")
				pendingIdx = len(expect) - 1
			}
			nontrivialOp = true
			ops = append(ops, "append(partial)")
			rc.Sim.Count("fs.partial_append")
			if !deliver(fsnotify.Write, live) {
				rc.Abort("event not consumed: %v", rc.Sim.Live())
				return
			}
		case 3: // rotate: audit.log -> audit.log.1 (older ones shifted), new empty audit.log
			if _, ok := mfs.files[live]; !ok {
				continue
			}
			if pendingIdx >= 0 {
				// a partial line is rotated away unfinished: it is never completed
				expect = append(expect[:pendingIdx], expect[pendingIdx+1:]...)
				pendingIdx, partial = -1, ""
			}
			mfs.files[dir+"/audit.log.1"] = mfs.files[live]
			delete(mfs.files, live)
			nontrivialOp = true
			ops = append(ops, "rotate")
			rc.Sim.Count("fs.rotate")
			if !deliver(fsnotify.Rename, live) {
				rc.Abort("event not consumed: %v", rc.Sim.Live())
				return
			}
			if !deliver(fsnotify.Create, dir+"/audit.log.1") {
				rc.Abort("event not consumed: %v", rc.Sim.Live())
				return
			}
			mfs.files[live] = nil
			if !deliver(fsnotify.Create, live) {
				rc.Abort("event not consumed: %v", rc.Sim.Live())
				return
			}
			if t.Choose(2, "chmod") == 0 {
				deliver(fsnotify.Chmod, live)
			}
		case 4: // truncate to zero
			if pendingIdx >= 0 {
				expect = append(expect[:pendingIdx], expect[pendingIdx+1:]...)
				pendingIdx, partial = -1, ""
			}
			mfs.files[live] = nil
			nontrivialOp = true
			ops = append(ops, "truncate")
			rc.Sim.Count("fs.truncate")
			if !deliver(fsnotify.Write, live) {
				rc.Abort("event not consumed: %v", rc.Sim.Live())
				return
			}
		default: // an event for another file of the directory: an unrelated log, or a rotated sibling
			// of the live file being compressed, deleted or renamed by the rotation tool
			name := []string{"/other.log", "/audit.log.1", "/audit.log.2", "/audit.log.1.gz", "/audit.log.bak", "/audit.log.10", "/audit.log"}[t.Choose(7, "uname")]
			op := []fsnotify.Op{fsnotify.Write, fsnotify.Create, fsnotify.Chmod, fsnotify.Remove, fsnotify.Rename}[t.Choose(5, "uop")]
			if name == "/audit.log" {
				// the live file itself: an attribute change only (chmod/chown by the rotation tool or an
				// administrator), its content and offset are untouched
				op = fsnotify.Chmod
			}
			if op == fsnotify.Remove || op == fsnotify.Rename {
				delete(mfs.files, dir+name)
			}
			if name != "/other.log" {
				rc.Sim.Count("fs.sibling_event")
				nontrivialOp = true
			}
			ops = append(ops, fmt.Sprintf("event(%s %s)", op, strings.TrimPrefix(name, "/")))
			deliver(op, dir+name)
		}
		// online check: what was received so far must be a prefix-consistent view
		want := expect
		if pendingIdx >= 0 {
			want = expect[:pendingIdx]
		}
		if !checkLines(rc, sink.got, want, ops, false) {
			break
		}
	}
	rc.CaseKey(nrot, fmt.Sprint(sufs), hasLive, strings.Join(ops, ","), bufsz, lineNo)
	rc.R.NonTrivial = nontrivialOp && nrot >= 2
	if nrot >= 10 {
		rc.Sim.Count("rotation_with_10_or_more_files")
	}
	rc.R.Sample = map[string]any{"rotated_suffixes_oldest_first": sufs, "live_file_at_start": hasLive, "operations": ops, "read_buffer": bufsz, "lines_expected": len(expect), "lines_received": len(sink.got)}
	if rc.Failed() {
		return
	}
	want := expect
	if pendingIdx >= 0 {
		want = expect[:pendingIdx]
	}
	checkLines(rc, sink.got, want, ops, true)
}

func checkLines(rc *RunCtx, got, want []string, ops []string, final bool) bool {
	n := len(got)
	if len(want) < n {
		n = len(want)
	}
	for i := 0; i < n; i++ {
		if got[i] != want[i] {
			class := "wrong-order-or-content"
			for _, w := range want {
				if w == got[i] {
					class = "wrong-order"
				}
			}
			for j := 0; j < i; j++ {
				if got[j] == got[i] {
					class = "duplicate-line"
				}
			}
			if strings.HasSuffix(got[i], "\n") {
				class = "newline-delivered"
			}
			rc.Fail("C20", class, "line %d received is %q, expected %q (after operations %v)", i, truncate(got[i], 120), truncate(want[i], 120), ops)
			return false
		}
	}
	if len(got) > len(want) {
		class := "extra-line"
		for j := 0; j < len(want); j++ {
			if got[len(want)] == want[j] {
				class = "duplicate-line"
			}
		}
		rc.Fail("C20", class, "%d lines received, %d expected; first extra: %q (after operations %v)", len(got), len(want), truncate(got[len(want)], 120), ops)
		return false
	}
	if len(got) < len(want) {
		rc.Fail("C20", "line-lost", "%d complete lines expected, %d received; first missing: %q (after operations %v)", len(want), len(got), truncate(want[len(got)], 120), ops)
		return false
	}
	return true
}
