package verifsim

import (
	"fmt"
	"sort"
	"strings"
	"time"

	"github.com/metal-toolbox/audito-maldito/internal/simrt"
)

func init() {
	base := histCfg{MaxSessions: 5, MaxActions: 4, Cleanup: true, MaxTotalMs: 45000}
	noisy := base
	noisy.Noise = true
	noisy.AfterEnd = true
	after := base
	after.AfterEnd = true
	register(&propDef{
		ID: "C01", Level: "exploration",
		Families: []family{
			{Name: "l1-history", Fn: scnL1History("C01", after), Weight: 3},
			{Name: "l1-history-noisy", Fn: scnL1History("C01", noisy), Weight: 1},
			{Name: "l1-pid-reuse-unended", Fn: scnL1Special("C01", genUnendedReuseHistory), Weight: 1},
			{Name: "l1-backlog-next-to-pending", Fn: scnL1Special("C01", genSmallBacklogHistory), Weight: 1},
			{Name: "l2-read", Fn: scnL2World("C01"), Weight: 2},
			{Name: "l3-daemon", Fn: scnL3World("C01"), Weight: 1},
		},
		Rule: "multi-session histories (1-5 sessions, unique PIDs/session ids, logins placed at every split point, cleanup calls inside the window, fake-clock gaps) " +
			"at three levels: tracker API (l1), real Read loop with parser/reassembler/tickers (l2), assembled daemon on simulated pipes (l3); " +
			"l1-pid-reuse-unended: a correlated session whose credential-disposal record never arrives (sshd killed), then a new session opened by the same PID with its own login at every split point, next to pending and bound background sessions, taped map-iteration order; " +
			"l1-backlog-next-to-pending: one session holds 27-290 events while another session, opened before or shortly after it, waits too; the logins arrive in either order; " +
			"non-trivial = at least two ssh sessions and at least one login delivered after its LOGIN record; distinct = distinct (history hash, schedule hash)",
		Quick: 14000, Thorough: 400000,
	})
	register(&propDef{
		ID: "C02", Level: "exploration",
		Families: []family{
			{Name: "l1-history", Fn: scnL1History("C02", base), Weight: 6},
			{Name: "l1-history-afterend", Fn: scnL1History("C02", after), Weight: 2},
			{Name: "l1-pid-reuse-unended", Fn: scnL1Special("C02", genUnendedReuseHistory), Weight: 2},
			{Name: "l1-large-backlog", Fn: scnL1Special("C02", genBacklogHistory), Weight: 1},
			{Name: "l2-read", Fn: scnL2World("C02"), Weight: 4},
			{Name: "l3-daemon", Fn: scnL3World("C02"), Weight: 2},
		},
		Rule: "as C01; the login of session 0 is swept systematically over every split point of its event list in half of the runs " +
			"(split = run/2 mod (len+1)), drawn in the others; l1-pid-reuse-unended as in C01; l1-large-backlog: one session holds 27 to ~2100 events (2^k +- a few) before its login arrives mid-session or after the credential-disposal record, next to another pending session; non-trivial = a correlated session with >= 2 emitted events or >= 2 ssh sessions with a late login; distinct = distinct (history hash, schedule hash)",
		Quick: 14000, Thorough: 400000,
	})
	register(&propDef{
		ID: "C04", Level: "exploration",
		Families: []family{
			{Name: "l1-history-noisy", Fn: scnL1History("C04", noisy), Weight: 3},
			{Name: "l2-read", Fn: scnL2World("C04"), Weight: 2},
			{Name: "l3-daemon", Fn: scnL3World("C04"), Weight: 1},
		},
		Rule: "histories mixing ssh sessions with cron sessions (LOGIN record, no ssh login), orphan sessions (no LOGIN record), logins without session, " +
			"records without ses and with the unset session (incl. LOGIN-typed), events after credential disposal; online monitor after every delivery; " +
			"non-trivial = at least one uncorrelated session next to another session; distinct = distinct (history hash, schedule hash)",
		Quick: 12000, Thorough: 350000,
	})
	register(&propDef{
		ID: "C09", Level: "exploration",
		Families: []family{
			{Name: "l1-pid-reuse", Fn: scnC09, Weight: 3},
			{Name: "l2-pid-reuse", Fn: scnL2World("C09"), Weight: 1},
		},
		Rule: "PID-reuse histories: session A (login and records in every relative order, incl. all records first) ends, then session B opened by the same PID " +
			"(login and records in every relative order), optional stray late event of A, background sessions, taped map-iteration order, kernel clock unrelated / one hour behind / in step with the daemon's, cleanup calls (cut-off one minute back) at taped places; " +
			"non-trivial = both sessions' halves delivered and A ended before B began; distinct = distinct (history hash, map-order/schedule hash)",
		Quick: 12000, Thorough: 350000,
	})
	register(&propDef{
		ID: "C16", Level: "exploration",
		Families: []family{
			{Name: "l1-cutoffs", Fn: scnC16L1, Weight: 2},
			{Name: "l2-ticker", Fn: scnC16L2, Weight: 1},
			{Name: "l2-stalled-loop", Fn: scnC16Stall, Weight: 1},
		},
		Rule: "l1: histories of arrivals separated by fake-clock sleeps with cleanup calls whose cut-offs lie strictly between arrival instants (and far past / far future), timeline of 40 s (one run in five: 170 s, halves up to 160 s apart), keep-alive records of waiting sessions, waiting logins superseded by a later login of the same PID, one run in twelve with 150-350 sessions and logins waiting at once (mixed, or all of one kind arriving within three seconds and older than one sweep's cut-off), arrivals 0/300/700/950 ms after the second, in a third of the runs a last sweep 2 h, 26 h or 200 h later before the probe records, a quarter of the logins-first sessions wait next to a correlated, still open session of the same PID; " +
			"l2: the real Read loop with its real one-minute ticker, second half arriving after a gap swept over 1..59 s and 121 s..10 min of simulated time (60-120 s generated, not judged), in a quarter of the other runs nobody logs in before the second half arrives, in a third of the runs a record of the correlated session arrives at the instant of every tick and the schedule interleaves the sweep with its delivery at lock granularity; " +
			"l2-stalled-loop: the Read goroutine is withheld for 35-85 simulated seconds (slow-thread fault) so that ticks are served late, halves 5-54 s apart must still correlate; " +
			"non-trivial = a cleanup call (or ticker firing) happened between the two halves of a session; distinct = distinct (history hash, schedule hash)",
		Quick: 8000, Thorough: 240000,
	})
}

// ---- special L1 histories shared by C01 / C02 ----

// genUnendedReuseHistory: session A is correlated but never ends (its credential-disposal record
// never arrives: sshd was killed, records were lost); later the same PID opens session B.
func genUnendedReuseHistory(t *simrt.Tape) *History {
	k := NewKaudit()
	w := &L1World{}
	pid := 5200 + t.Choose(50, "pid")
	a := &Session{Ses: fmt.Sprint(900 + t.Choose(5, "sesA")), PID: pid, UID: 1000, Kind: "ssh"}
	a.Login = GenLogin(t, pid, 1)
	b := &Session{Ses: fmt.Sprint(920 + t.Choose(5, "sesB")), PID: pid, UID: 1001, Kind: "ssh"}
	b.Login = GenLogin(t, pid, 2)
	w.Sessions = []*Session{a, b}
	var ops []HOp
	// background sessions with other PIDs: bound, pending (LOGIN record only), or login only
	nbg := t.Choose(4, "nbg")
	for i := 0; i < nbg; i++ {
		bg := &Session{Ses: fmt.Sprint(950 + i), PID: pid + 1000 + i, UID: 1002 + i, Kind: "ssh"}
		bg.Login = GenLogin(t, bg.PID, 3+i)
		bg.Events = append(bg.Events, k.Login(bg.Ses, bg.PID, bg.UID))
		w.Sessions = append(w.Sessions, bg)
		si := len(w.Sessions) - 1
		switch t.Choose(3, "bg.state") {
		case 0:
			ops = append(ops, HOp{Kind: "event", S: si, E: 0}, HOp{Kind: "login", S: si})
		case 1:
			ops = append(ops, HOp{Kind: "event", S: si, E: 0})
		default:
			ops = append(ops, HOp{Kind: "login", S: si}, HOp{Kind: "event", S: si, E: 0})
		}
	}
	a.Events = append(a.Events, k.Login(a.Ses, pid, a.UID))
	for i, na := 0, t.Choose(4, "nactA"); i < na; i++ {
		a.Events = append(a.Events, GenAction(t, k, a.Ses, pid, a.UID))
	}
	splitA := t.Choose(len(a.Events)+1, "splitA")
	for i := range a.Events {
		if i == splitA {
			ops = append(ops, HOp{Kind: "login", S: 0})
		}
		ops = append(ops, HOp{Kind: "event", S: 0, E: i})
	}
	if splitA == len(a.Events) {
		ops = append(ops, HOp{Kind: "login", S: 0})
	}
	ops = append(ops, HOp{Kind: "sleep", Ms: 1000 + t.Choose(20000, "gap.ms")})
	b.Events = append(b.Events, k.Login(b.Ses, pid, b.UID))
	for i, nb := 0, 1+t.Choose(4, "nactB"); i < nb; i++ {
		b.Events = append(b.Events, GenAction(t, k, b.Ses, pid, b.UID))
	}
	if t.Choose(2, "endB") == 1 {
		b.Events = append(b.Events, k.UserMsg("CRED_DISP", b.Ses, pid, b.UID, true, 0))
	}
	splitB := t.Choose(len(b.Events)+1, "splitB")
	for i := range b.Events {
		if i == splitB {
			ops = append(ops, HOp{Kind: "login", S: 1})
		}
		ops = append(ops, HOp{Kind: "event", S: 1, E: i})
	}
	if splitB == len(b.Events) {
		ops = append(ops, HOp{Kind: "login", S: 1})
	}
	return &History{W: w, Ops: ops}
}

// genBacklogHistory: one session accumulates a large number of held events before its login
// arrives (an sshd log that lags far behind a busy session).
func genBacklogHistory(t *simrt.Tape) *History { return genBacklog(t, 7) }

// genSmallBacklogHistory: the same shape with at most a few hundred held events.
func genSmallBacklogHistory(t *simrt.Tape) *History { return genBacklog(t, 3) }

func genBacklog(t *simrt.Tape, log2Range int) *History {
	k := NewKaudit()
	w := &L1World{}
	pid := 5400 + t.Choose(50, "pid")
	a := &Session{Ses: "940", PID: pid, UID: 1000, Kind: "ssh"}
	a.Login = GenLogin(t, pid, 1)
	w.Sessions = []*Session{a}
	var ops []HOp
	// another session that waits for its login at the same time: opened before the busy one, or
	// after its first record, or after its first few records
	otherAt := -1
	var o *Session
	if t.Choose(2, "other.pending") == 1 {
		o = &Session{Ses: "941", PID: pid + 500, UID: 1001, Kind: "ssh"}
		o.Login = GenLogin(t, o.PID, 2)
		w.Sessions = append(w.Sessions, o)
		otherAt = []int{0, 1, 6}[t.Choose(3, "other.at")]
	}
	held := (1 << (5 + t.Choose(log2Range, "held.log2"))) + t.Choose(40, "held.delta") - 5
	openOther := func() {
		o.Events = append(o.Events, k.Login(o.Ses, o.PID, o.UID), GenAction(t, k, o.Ses, o.PID, o.UID))
		ops = append(ops, HOp{Kind: "event", S: 1, E: 0}, HOp{Kind: "event", S: 1, E: 1})
	}
	for i := 0; i < held; i++ {
		if i == otherAt {
			openOther()
		}
		if i == 0 {
			a.Events = append(a.Events, k.Login(a.Ses, pid, a.UID))
		} else {
			a.Events = append(a.Events, GenAction(t, k, a.Ses, pid, a.UID))
		}
		ops = append(ops, HOp{Kind: "event", S: 0, E: i})
	}
	afterEnd := t.Choose(2, "login.after.end") == 1
	if afterEnd {
		a.Events = append(a.Events, k.UserMsg("CRED_DISP", a.Ses, pid, a.UID, true, 0))
		ops = append(ops, HOp{Kind: "event", S: 0, E: len(a.Events) - 1})
	}
	// the other session's login may come first
	otherFirst := o != nil && t.Choose(2, "other.login.first") == 1
	if otherFirst {
		ops = append(ops, HOp{Kind: "login", S: 1})
	}
	ops = append(ops, HOp{Kind: "login", S: 0})
	if !afterEnd {
		n0 := len(a.Events)
		for i, more := 0, 1+t.Choose(4, "more"); i < more; i++ {
			a.Events = append(a.Events, GenAction(t, k, a.Ses, pid, a.UID))
		}
		a.Events = append(a.Events, k.UserMsg("CRED_DISP", a.Ses, pid, a.UID, true, 0))
		for i := n0; i < len(a.Events); i++ {
			ops = append(ops, HOp{Kind: "event", S: 0, E: i})
		}
	}
	if o != nil && !otherFirst {
		ops = append(ops, HOp{Kind: "login", S: 1})
	}
	return &History{W: w, Ops: ops}
}

func scnL1Special(prop string, gen func(*simrt.Tape) *History) scenarioFn {
	return func(rc *RunCtx) {
		h := gen(rc.Spec)
		if err := h.W.Prepare(); err != nil {
			rc.Abort("world: %v", err)
			return
		}
		rec := &Recorder{Sim: rc.Sim, NoPoint: true}
		errs := h.exec(rc, rec, func(int) {})
		rc.CaseKey(h.caseKey())
		rc.State(h.stateKey(rec.Events))
		smp := sampleOf(h, map[string]any{"emitted": len(rec.Events)})
		if hist, ok := smp["history"].([]string); ok && len(hist) > 60 {
			smp["history"] = append(append([]string{}, hist[:30]...), fmt.Sprintf("... %d more ...", len(hist)-60))
			smp["history"] = append(smp["history"].([]string), hist[len(hist)-30:]...)
		}
		if ss, ok := smp["sessions"].([]string); ok {
			for i := range ss {
				ss[i] = truncate(ss[i], 300)
			}
		}
		rc.R.Sample = smp
		rc.R.NonTrivial = len(rec.Events) >= 2
		if len(errs) > 0 {
			rc.Abort("tracker returned errors in a fault-free history: %v", errs)
			return
		}
		switch prop {
		case "C01":
			// session ids are unique and every session has its own login
			for _, e := range rec.Events {
				if e.Type != "UserAction" {
					continue
				}
				si := h.sessionBySes(e.AuditID)
				if si < 0 {
					continue
				}
				if e.Identity() != h.loginIdent[si] {
					whose := "nobody's"
					for sj, id := range h.loginIdent {
						if id == e.Identity() {
							whose = fmt.Sprintf("the login of session s%d (ses %s, pid %d)", sj, h.W.Sessions[sj].Ses, h.W.Sessions[sj].PID)
						}
					}
					rc.Fail("C01", "wrong-identity", "UserAction #%d of audit session %s (opened by pid %d) carries %s instead of its own login", e.Seq, e.AuditID, h.W.Sessions[si].PID, whose)
					return
				}
			}
		case "C02":
			h.checkC02(rc, rec.Events)
		}
	}
}

// ---- C09 ----

func scnC09(rc *RunCtx) {
	h := genC09History(rc.Spec)
	w := h.W
	if err := w.Prepare(); err != nil {
		rc.Abort("world: %v", err)
		return
	}
	rec := &Recorder{Sim: rc.Sim, NoPoint: true}
	type emitted struct {
		ev *OutEvent
		op int
	}
	var all []emitted
	seen := 0
	errs := h.exec(rc, rec, func(i int) {
		for _, e := range rec.Events[seen:] {
			all = append(all, emitted{e, i})
		}
		seen = len(rec.Events)
	})
	rc.CaseKey(h.caseKey())
	rc.State(h.stateKey(rec.Events))
	rc.R.Sample = sampleOf(h, map[string]any{"emitted": len(rec.Events)})
	rc.R.NonTrivial = true
	if len(errs) > 0 {
		rc.Abort("tracker returned errors in a fault-free history: %v", errs)
		return
	}
	checkC09(rc, h, 0, 1, func(f func(e *OutEvent, op int)) {
		for _, x := range all {
			f(x.ev, x.op)
		}
	})
}

// genC09History: session A (s0) ends, then session B (s1) is opened by the same PID.
func genC09History(t *simrt.Tape) *History {
	var k *Kaudit
	switch t.Choose(4, "kernel.clock") {
	case 1:
		k = NewKauditAt(time.Now().Add(-time.Hour)) // a backlog: kernel timestamps an hour behind the daemon's clock
	case 2:
		k = NewKauditAt(time.Now())
	default:
		k = NewKaudit()
	}
	w := &L1World{}
	pid := 5000 + t.Choose(50, "pid")
	mk := func(ses string, uid, uniq, nact int, strayAfter bool) *Session {
		s := &Session{Ses: ses, PID: pid, UID: uid, Kind: "ssh"}
		s.Login = GenLogin(t, pid, uniq)
		return s
	}
	a := mk(fmt.Sprint(800+t.Choose(5, "sesA")), 1000, 1, 0, false)
	b := mk(fmt.Sprint(820+t.Choose(5, "sesB")), 1001, 2, 0, false)
	w.Sessions = []*Session{a, b}
	// optional background session with another PID
	var bg *Session
	if t.Choose(2, "bg") == 1 {
		bg = &Session{Ses: "850", PID: pid + 1000, UID: 1002, Kind: "ssh"}
		bg.Login = GenLogin(t, bg.PID, 3)
		w.Sessions = append(w.Sessions, bg)
	}
	var ops []HOp
	// phase A: records LOGIN, actions, CRED_DISP; login A at a split point
	na := t.Choose(3, "nactA")
	a.Events = append(a.Events, k.Login(a.Ses, pid, a.UID))
	for i := 0; i < na; i++ {
		a.Events = append(a.Events, GenAction(t, k, a.Ses, pid, a.UID))
	}
	a.Events = append(a.Events, k.UserMsg("CRED_DISP", a.Ses, pid, a.UID, true, 0))
	if t.Choose(4, "trailingA") == 3 {
		// one more record of the session after its credential disposal (USER_LOGOUT / USER_END of
		// the pam stack), still before the PID is reused
		a.Events = append(a.Events, k.UserMsg([]string{"USER_LOGOUT", "USER_END"}[t.Choose(2, "trailingA.type")], a.Ses, pid, a.UID, true, 0))
	}
	splitA := len(a.Events) // default: all records first, login last
	if t.Choose(2, "splitA.mode") == 1 {
		splitA = t.Choose(len(a.Events)+1, "splitA")
	}
	for i := range a.Events {
		if i == splitA {
			ops = append(ops, HOp{Kind: "login", S: 0})
		}
		ops = append(ops, HOp{Kind: "event", S: 0, E: i})
	}
	// variant: the earlier session was short and its login line is very late - all its records
	// arrived more than two minutes before, so the held session has been swept away when the
	// login arrives; that login then waits, and is still waiting when the PID is reused
	sweptA := false
	if splitA == len(a.Events) {
		if t.Choose(4, "sweptA") == 3 {
			sweptA = true
			ops = append(ops, HOp{Kind: "sleep", Ms: 130000}, HOp{Kind: "cleanup", CutMs: -60000})
		}
		ops = append(ops, HOp{Kind: "login", S: 0})
	}
	// variant: the sshd stream runs ahead of the audit stream, so the login of the new sshd
	// process (same PID) arrives while the earlier session is correlated but before its
	// credential-disposal record has been processed
	earlyB := false
	if splitA < len(a.Events)-1 && t.Choose(3, "earlyB") == 0 {
		// login A and A's LOGIN record are both in ops[:idx of CRED_DISP]; put login B right
		// before A's CRED_DISP, separated in time so that both streams agree on the order
		last := ops[len(ops)-1]
		if last.Kind == "event" && last.S == 0 && last.E == len(a.Events)-1 {
			ops = append(ops[:len(ops)-1], HOp{Kind: "sleep", Ms: 2000}, HOp{Kind: "login", S: 1}, HOp{Kind: "sleep", Ms: 2000}, last)
			earlyB = true
		}
	}
	// the earlier session has ended (both streams drained) before the PID is reused
	ops = append(ops, HOp{Kind: "sleep", Ms: 5000})
	phaseB := len(ops)
	if bg != nil {
		bg.Events = append(bg.Events, k.Login(bg.Ses, bg.PID, bg.UID))
		ops = append(ops, HOp{Kind: "event", S: 2, E: 0}, HOp{Kind: "login", S: 2})
		phaseB = len(ops)
	}
	// phase B
	nb := 1 + t.Choose(3, "nactB")
	b.Events = append(b.Events, k.Login(b.Ses, pid, b.UID))
	for i := 0; i < nb; i++ {
		b.Events = append(b.Events, GenAction(t, k, b.Ses, pid, b.UID))
	}
	// stray late event of A (kernel timestamp later than B's first events)
	stray := t.Choose(2, "stray") == 1
	if stray {
		a.Events = append(a.Events, GenAction(t, k, a.Ses, pid, a.UID))
	}
	if t.Choose(2, "endB") == 1 {
		b.Events = append(b.Events, k.UserMsg("CRED_DISP", b.Ses, pid, b.UID, true, 0))
	}
	splitB := t.Choose(len(b.Events)+1, "splitB")
	if sweptA {
		splitB = 0 // the new login replaces the one still waiting before the new session opens
	}
	var bops []HOp
	for i := range b.Events {
		if i == splitB && !earlyB {
			bops = append(bops, HOp{Kind: "login", S: 1})
			if sweptA {
				// separated in time, so that both streams agree that the login came first
				bops = append(bops, HOp{Kind: "sleep", Ms: 2000})
			}
		}
		bops = append(bops, HOp{Kind: "event", S: 1, E: i})
	}
	if splitB == len(b.Events) && !earlyB {
		bops = append(bops, HOp{Kind: "login", S: 1})
	}
	if stray {
		at := t.Choose(len(bops)+1, "straypos")
		bops = append(bops[:at], append([]HOp{{Kind: "event", S: 0, E: len(a.Events) - 1}}, bops[at:]...)...)
	}
	if bg != nil && t.Choose(2, "bgact") == 1 {
		bg.Events = append(bg.Events, GenAction(t, k, bg.Ses, bg.PID, bg.UID))
		at := t.Choose(len(bops)+1, "bgpos")
		bops = append(bops[:at], append([]HOp{{Kind: "event", S: 2, E: 1}}, bops[at:]...)...)
	}
	ops = append(ops, bops...)
	_ = phaseB
	// the periodic cleanup (cut-off one minute back) may run anywhere in between: nothing in
	// this history is that old, so it must not change anything
	var withCleanups []HOp
	for _, o := range ops {
		if t.Choose(8, "cleanup?") == 7 {
			withCleanups = append(withCleanups, HOp{Kind: "cleanup", CutMs: -60000})
		}
		withCleanups = append(withCleanups, o)
	}
	return &History{W: w, Ops: withCleanups}
}

// checkC09 is scoped to binding and identity (completeness/order of a flush is C02's).
func checkC09(rc *RunCtx, h *History, ai, bi int, each func(func(e *OutEvent, op int))) {
	a, b := h.W.Sessions[ai], h.W.Sessions[bi]
	identA, identB := h.loginIdent[ai], h.loginIdent[bi]
	loginBAt, okB := h.loginAt[bi]
	if !okB {
		return
	}
	bothBAt := loginBAt
	if at, ok := h.evAt[fmt.Sprintf("%d.0", bi)]; ok && at > bothBAt {
		bothBAt = at
	}
	firstSeenA := map[int]int{}
	gotB := map[int]bool{}
	failed := false
	each(func(e *OutEvent, op int) {
		if failed || e.Type != "UserAction" {
			return
		}
		si, ei := h.eventIndexOf(e)
		switch {
		case e.AuditID == b.Ses:
			if si == bi {
				gotB[ei] = true
			}
			if e.Identity() != identB {
				whose := "an unknown identity"
				if e.Identity() == identA {
					whose = "the identity of the ended session's login"
				}
				rc.Fail("C09", "new-session-wrong-identity", "event %d of the new session %s (pid %d reused) carries %s", ei, b.Ses, b.PID, whose)
				failed = true
			}
		case e.AuditID == a.Ses:
			if op >= loginBAt && e.Identity() == identB {
				rc.Fail("C09", "ended-session-rebound", "an event of the ended session %s written after the later login (pid %d reused) arrived carries the later login's identity: the later login was bound to the ended session", a.Ses, a.PID)
				failed = true
				return
			}
			if _, ok := firstSeenA[ei]; !ok {
				firstSeenA[ei] = op
				if op == loginBAt && si == ai {
					rc.Fail("C09", "ended-session-released-by-later-login", "event %d of the ended session %s was emitted for the first time when the later login with the reused pid arrived", ei, a.Ses)
					failed = true
				}
			}
		}
	})
	if failed {
		return
	}
	// every event of B delivered after both halves arrived must be emitted
	end := credDispIdx(b)
	for i := range b.Events {
		at, ok := h.evAt[fmt.Sprintf("%d.%d", bi, i)]
		if !ok || at <= bothBAt {
			continue
		}
		if end >= 0 && i > end {
			continue
		}
		if !gotB[i] {
			rc.Fail("C09", "new-session-not-bound", "event %d of session %s (opened by reused pid %d after the earlier session %s ended) was delivered after both its LOGIN record and its login arrived but was never emitted", i, b.Ses, b.PID, a.Ses)
			return
		}
	}
}

// ---- C16 L1 ----

func scnC16L1(rc *RunCtx) {
	t := rc.Spec
	k := NewKaudit()
	w := &L1World{}
	n := 1 + t.Choose(3, "n")
	if t.Choose(12, "crowd") == 11 {
		// a burst: dozens of sessions and logins wait at the same time
		n = 150 + t.Choose(200, "crowd.n")
		rc.Sim.Count("c16.crowd")
	}
	// the crowd may be of one kind and arrive within a few seconds, far more than any batch
	// size: 1 = only logins wait, 2 = only sessions wait (0 = mixed, spread over the timeline)
	crowdKind := 0
	if n >= 150 {
		crowdKind = t.Choose(3, "crowd.kind")
	}
	// arrivals fall off ms after a whole second (not only on second boundaries)
	off := []int{0, 700, 300, 950}[t.Choose(4, "subsecond")]
	// timeline in whole seconds (+ off ms); cleanup cut-offs at x.5 s so that no age ever equals a cut-off
	type arrival struct {
		at int // seconds
		op HOp
	}
	var tl []arrival
	type cl struct{ at, cutAbs int } // cut-off absolute in half-seconds (2*s+1)
	var cls []cl
	extra := map[int]int{}
	ended := map[int]bool{}
	horizon := 40
	if t.Choose(5, "long.gaps") == 4 {
		// halves up to two and a half minutes apart: without a cleanup call in between they are
		// still correlated (only the cleanup's cut-off decides what is stale)
		horizon = 170
	}
	var ghosts []*Session
	notJudged := map[int]bool{}
	for si := 0; si < n; si++ {
		pid := 6000 + si*11
		s := &Session{Ses: fmt.Sprint(900 + si), PID: pid, UID: 1000 + si, Kind: "ssh"}
		s.Login = GenLogin(t, pid, si+1)
		s.Events = append(s.Events, k.Login(s.Ses, pid, s.UID))
		loginFirst := t.Choose(2, "loginfirst") == 1
		if crowdKind != 0 {
			loginFirst = crowdKind == 1
		}
		if !loginFirst && t.Choose(4, "short.session") == 3 {
			// a short session: it is over (credential disposal held with its LOGIN record) before
			// its login line arrives; still a waiting half like any other
			s.Events = append(s.Events, k.UserMsg("CRED_DISP", s.Ses, pid, s.UID, true, 0))
			ended[si] = true
			rc.Sim.Count("c16.waiting_session_already_ended")
		} else {
			s.Events = append(s.Events, GenAction(t, k, s.Ses, pid, s.UID))
		}
		s.Events = append(s.Events, k.UserMsg("USER_LOGIN", s.Ses, pid, s.UID, true, 0)) // probe
		w.Sessions = append(w.Sessions, s)
		t1 := 1 + t.Choose(horizon-10, "t1")
		t2 := t1 + 1 + t.Choose(horizon-t1-2, "gap")
		if crowdKind != 0 {
			t1, t2 = 1+t1%3, horizon-2-t2%3
		}
		if loginFirst && t1 > 1 && t.Choose(4, "superseded") == 3 {
			// an earlier sshd process with the same PID logged in but never got an audit session;
			// its login still waits when this one arrives and is superseded by it
			g := &Session{Ses: fmt.Sprint(5000 + si), PID: pid, UID: 1100 + si, Kind: "login-only"}
			g.Login = GenLogin(t, pid, 50+si)
			ghosts = append(ghosts, g)
			tl = append(tl, arrival{t.Choose(t1, "superseded.at"), HOp{Kind: "login", S: n + len(ghosts) - 1}})
			rc.Sim.Count("c16.superseded_pending_login")
		}
		if loginFirst && crowdKind == 0 && t.Choose(4, "bound.twin") == 3 {
			// the PID was used before by a session that is correlated and still open (its end was
			// never seen): the new login waits next to it
			g := &Session{Ses: fmt.Sprint(7000 + si), PID: pid, UID: 1200 + si, Kind: "ssh"}
			g.Login = GenLogin(t, pid, 80+si)
			g.Events = append(g.Events, k.Login(g.Ses, pid, g.UID))
			ghosts = append(ghosts, g)
			gi := n + len(ghosts) - 1
			tl = append(tl, arrival{0, HOp{Kind: "login", S: gi}}, arrival{0, HOp{Kind: "event", S: gi, E: 0}})
			notJudged[gi] = true
			rc.Sim.Count("c16.login_waits_next_to_open_session_of_same_pid")
		}
		if loginFirst {
			tl = append(tl, arrival{t1, HOp{Kind: "login", S: si}})
			tl = append(tl, arrival{t2, HOp{Kind: "event", S: si, E: 0}})
			tl = append(tl, arrival{t2, HOp{Kind: "event", S: si, E: 1}})
		} else {
			tl = append(tl, arrival{t1, HOp{Kind: "event", S: si, E: 0}})
			tl = append(tl, arrival{t1, HOp{Kind: "event", S: si, E: 1}})
			tl = append(tl, arrival{t2, HOp{Kind: "login", S: si}})
			// the uncorrelated session stays active: further records arrive while it waits
			if t2-t1 > 1 {
				for j, nk := 0, t.Choose(4, "keepalive"); j < nk; j++ {
					s.Events = append(s.Events, GenAction(t, k, s.Ses, pid, s.UID))
					tl = append(tl, arrival{t1 + 1 + t.Choose(t2-t1-1, "keepalive.at"), HOp{Kind: "event", S: si, E: len(s.Events) - 1}})
					extra[si]++
				}
			}
		}
		tl = append(tl, arrival{horizon + 1, HOp{Kind: "event", S: si, E: 2}})
	}
	w.Sessions = append(w.Sessions, ghosts...)
	nc := t.Choose(4, "ncleanups")
	for i := 0; i < nc; i++ {
		at := 1 + t.Choose(horizon, "cat")
		var cut int
		switch t.Choose(4, "cutkind") {
		case 0:
			cut = -1000 // far past
		case 1:
			cut = 2*(at+1000) + 1 // far future
		default:
			cut = 2*t.Choose(at+1, "cut") + 1 // x.5 s, at or before now
		}
		cls = append(cls, cl{at, cut})
	}
	if crowdKind != 0 {
		// one sweep in the middle of the wait that has to discard the whole crowd
		cls = append(cls, cl{20, 2*10 + 1})
	}
	lateSweep := t.Choose(3, "late.sweep") == 2
	lateAfterH := []int{2, 26, 200}[t.Choose(3, "late.sweep.after")]
	// build ops in time order: at each second first the arrivals, then the cleanups
	var ops []HOp
	if off > 0 {
		ops = append(ops, HOp{Kind: "sleep", Ms: off})
	}
	now := 0
	for sec := 0; sec <= horizon+1; sec++ {
		var here []HOp
		for _, a := range tl {
			if a.at == sec {
				here = append(here, a.op)
			}
		}
		var chere []cl
		for _, c := range cls {
			if c.at == sec {
				chere = append(chere, c)
			}
		}
		if len(here)+len(chere) == 0 {
			continue
		}
		if sec > now {
			ops = append(ops, HOp{Kind: "sleep", Ms: (sec - now) * 1000})
			now = sec
		}
		if sec == horizon+1 && lateSweep {
			// hours later: whatever still waits is swept away, a correlated session is not
			ops = append(ops, HOp{Kind: "sleep", Ms: lateAfterH * 3600 * 1000}, HOp{Kind: "cleanup", CutMs: -60000})
		}
		ops = append(ops, here...)
		for _, c := range chere {
			// cut-off relative to now in ms: cutAbs half-seconds
			ops = append(ops, HOp{Kind: "cleanup", CutMs: c.cutAbs*500 - (sec*1000 + off)})
		}
	}
	h := &History{W: w, Ops: ops}
	if err := w.Prepare(); err != nil {
		rc.Abort("world: %v", err)
		return
	}
	// reference model of the statement: a pending half strictly older than a cut-off is
	// discarded, a younger one is kept, a correlated session is never discarded
	const (
		stNone = iota
		stPending
		stBound
		stDead
	)
	type pend struct {
		at    int // ms at which the pending half arrived
		state int
	}
	ps := make([]pend, len(w.Sessions))
	nowMs := 0
	between := false
	for _, o := range ops {
		switch o.Kind {
		case "sleep":
			nowMs += o.Ms
		case "login", "event":
			if o.Kind == "event" && o.E != 0 {
				continue
			}
			p := &ps[o.S]
			switch p.state {
			case stNone:
				p.state, p.at = stPending, nowMs
			case stPending:
				p.state = stBound
			}
		case "cleanup":
			cut := nowMs + o.CutMs
			for i := range ps {
				p := &ps[i]
				if p.state != stPending {
					continue
				}
				between = true
				if p.at < cut {
					p.state = stDead
				}
			}
		}
	}
	rec := &Recorder{Sim: rc.Sim, NoPoint: true}
	errs := h.exec(rc, rec, nil)
	rc.CaseKey(h.caseKey())
	rc.State(h.stateKey(rec.Events))
	rc.R.NonTrivial = between
	rc.R.Sample = sampleOf(h, map[string]any{"emitted": len(rec.Events)})
	if len(errs) > 0 {
		rc.Abort("tracker returned errors in a fault-free history: %v", errs)
		return
	}
	for si, s := range w.Sessions {
		if notJudged[si] {
			continue
		}
		cnt, probe := 0, false
		for _, e := range rec.Events {
			if e.AuditID == s.Ses {
				cnt++
				if _, ei := h.eventIndexOf(e); ei == 2 {
					probe = true
				}
			}
		}
		expectCorrelated := ps[si].state == stBound
		switch {
		case expectCorrelated && ended[si]:
			// the session was over when its login arrived: its two held events are released (what
			// comes after its credential disposal is unspecified)
			if cnt < 2+extra[si] {
				rc.Fail("C16", "kept-half-lost", "session s%d (already ended when its login arrived): neither half was older than any cut-off given to cleanup before the other half arrived, yet only %d of its %d held events were emitted", si, cnt, 2+extra[si])
				return
			}
		case expectCorrelated && !probe:
			rc.Fail("C16", "kept-half-lost", "session s%d: neither half was older than any cut-off given to cleanup before the other half arrived, yet the session was not correlated (probe event not emitted; %d events emitted)", si, cnt)
			return
		case expectCorrelated && cnt < 3+extra[si]:
			// held events must have been released too (count only; order is C02's)
			rc.Fail("C16", "held-events-lost", "session s%d correlated but only %d of %d events were emitted", si, cnt, 3+extra[si])
			return
		case !expectCorrelated && cnt > 0:
			rc.Fail("C16", "stale-half-kept", "session s%d: its first half was older than a cut-off given to cleanup before the second half arrived, so it must be discarded, yet %d events were emitted", si, cnt)
			return
		}
	}
}

func describeOps(ops []HOp) string {
	var s []string
	for _, o := range ops {
		s = append(s, o.String())
	}
	return strings.Join(s, " ")
}

var _ = time.Second
var _ = simrt.Mix

// ---- C16 L2: the real Read loop with its real one-minute ticker ----

func scnC16L2(rc *RunCtx) {
	t := rc.Spec
	k := NewKaudit()
	w := &L1World{}
	pid := 6500 + t.Choose(100, "pid")
	s := &Session{Ses: fmt.Sprint(950 + t.Choose(9, "ses")), PID: pid, UID: 1000, Kind: "ssh"}
	s.Login = GenLogin(t, pid, 1)
	s.Events = append(s.Events, k.Login(s.Ses, pid, s.UID))
	s.Events = append(s.Events, GenAction(t, k, s.Ses, pid, s.UID))
	s.Events = append(s.Events, k.UserMsg("USER_LOGIN", s.Ses, pid, s.UID, true, 0)) // probe
	w.Sessions = []*Session{s}
	// an already correlated session that must survive every cleanup
	bs := &Session{Ses: "990", PID: pid + 500, UID: 1001, Kind: "ssh"}
	bs.Login = GenLogin(t, bs.PID, 2)
	bs.Events = append(bs.Events, k.Login(bs.Ses, bs.PID, bs.UID))
	bs.Events = append(bs.Events, k.UserMsg("USER_LOGIN", bs.Ses, bs.PID, bs.UID, true, 0)) // late probe
	w.Sessions = append(w.Sessions, bs)
	t0 := 1000 * t.Choose(130, "t0") // phase of the first half relative to the ticker
	var gapS int
	band := t.Choose(5, "band")
	switch band {
	case 0, 1:
		gapS = 1 + t.Choose(59, "gap.in") // 1..59 s: must correlate
	case 2:
		gapS = 60 + t.Choose(61, "gap.mid") // 60..120 s: generated, not judged
	default:
		gapS = 121 + t.Choose(480, "gap.out") // 121 s..10 min: must not correlate
	}
	loginFirst := t.Choose(2, "loginfirst") == 1
	// the correlated session is busy: one of its records arrives at the very instant of every
	// cleanup tick (the sweep and the delivery of an event meet)
	var heartbeats []int
	if t.Choose(3, "heartbeat") == 2 {
		for tick := 60000; tick < t0+gapS*1000+3000; tick += 60000 {
			bs.Events = append(bs.Events, k.UserMsg("USER_START", bs.Ses, bs.PID, bs.UID, true, 0))
			heartbeats = append(heartbeats, len(bs.Events)-1)
		}
	}
	h := &History{W: w}
	if err := w.Prepare(); err != nil {
		rc.Abort("world: %v", err)
		return
	}
	var sshdTL, auditTL []TLItem
	t2 := t0 + gapS*1000
	// bound session right at the start - or, in a quarter of the runs without heartbeat, only after
	// the second half: then no login of anybody has reached the processor while the first half waits
	boundAt := 0
	quietStart := len(heartbeats) == 0 && t.Choose(4, "quiet.start") == 3
	if quietStart {
		boundAt = t2 + 1000
		rc.Sim.Count("c16.no_login_before_the_second_half")
	}
	auditTL = append(auditTL, TLItem{AtMs: boundAt, Kind: "event", S: 1, E: 0})
	sshdTL = append(sshdTL, TLItem{AtMs: boundAt, Kind: "login", S: 1})
	if loginFirst {
		sshdTL = append(sshdTL, TLItem{AtMs: t0, Kind: "login", S: 0})
		auditTL = append(auditTL, TLItem{AtMs: t2, Kind: "event", S: 0, E: 0}, TLItem{AtMs: t2, Kind: "event", S: 0, E: 1})
	} else {
		auditTL = append(auditTL, TLItem{AtMs: t0, Kind: "event", S: 0, E: 0}, TLItem{AtMs: t0, Kind: "event", S: 0, E: 1})
		sshdTL = append(sshdTL, TLItem{AtMs: t2, Kind: "login", S: 0})
	}
	probeAt := t2 + 3000
	auditTL = append(auditTL, TLItem{AtMs: probeAt, Kind: "event", S: 0, E: 2}, TLItem{AtMs: probeAt, Kind: "event", S: 1, E: 1})
	for i, e := range heartbeats {
		auditTL = append(auditTL, TLItem{AtMs: 60000 * (i + 1), Kind: "event", S: 1, E: e})
	}
	sort.SliceStable(auditTL, func(i, j int) bool { return auditTL[i].AtMs < auditTL[j].AtMs })
	sort.SliceStable(sshdTL, func(i, j int) bool { return sshdTL[i].AtMs < sshdTL[j].AtMs })
	// unrelated logins (other sshd processes whose sessions never show up) keep arriving
	// while the halves are pending: the cleanup must not depend on the processor being idle
	decoyEvery := []int{0, 0, 20, 45}[t.Choose(4, "decoy.every")]
	if quietStart {
		decoyEvery = 0
	}
	if decoyEvery > 0 {
		for at, i := decoyEvery*1000/2, 0; at < probeAt; at, i = at+decoyEvery*1000, i+1 {
			ds := &Session{Ses: fmt.Sprint(5000 + i), PID: 30000 + i, UID: 1500, Kind: "login-only"}
			ds.Login = GenLogin(t, ds.PID, 100+i)
			w.Sessions = append(w.Sessions, ds)
			sshdTL = append(sshdTL, TLItem{AtMs: at, Kind: "login", S: len(w.Sessions) - 1})
		}
		// keep the sshd timeline ordered by time
		sort.SliceStable(sshdTL, func(i, j int) bool { return sshdTL[i].AtMs < sshdTL[j].AtMs })
		rc.Sim.Count("c16.decoy_logins")
	}
	p := newPipeline(rc, 2, h, sshdTL, auditTL)
	rc.Sim.Policy = simrt.PolicyRunToBlock // durations are judged: fair schedule, clock advances at quiescence only
	if len(heartbeats) > 0 {
		// interleavings at lock granularity between the sweep and the delivery (the clock still
		// advances at quiescence only)
		pipelinePolicy(rc)
		rc.Sim.Count("c16.record_at_every_tick")
	}
	if err := p.Start(); err != nil {
		rc.Abort("start: %v", err)
		return
	}
	end := time.Duration(probeAt+4000) * time.Millisecond
	ok := p.Run(nil, end, 500*time.Millisecond, 400000)
	if dl := rc.Sim.Deadlocked(); len(dl) > 0 {
		rc.Fail("C16", "deadlock", "the cleanup tick and the delivery of an audit event block each other: %v", dl)
		return
	}
	rc.CaseKey(t0, gapS, loginFirst, s.Ses, pid, decoyEvery)
	rc.R.NonTrivial = gapS >= 1
	rc.R.Sample = map[string]any{"first_half_at_s": t0 / 1000, "gap_s": gapS, "login_first": loginFirst, "band": []string{"<60s", "<60s", "60-120s (not judged)", ">120s", ">120s"}[band], "written": len(p.Out), "unrelated_login_every_s": decoyEvery}
	rc.Sim.Count(fmt.Sprintf("clock.gap.band%d", band))
	if !ok {
		rc.Abort("step budget exhausted: %v", rc.Sim.Live())
		return
	}
	if p.ReadDone || len(p.procErrs) > 0 {
		rc.Abort("processors stopped in a fault-free run: %v %v", p.ReadErr, p.procErrs)
		return
	}
	cnt, probe, bprobe := 0, false, false
	for _, e := range p.Out {
		if e.Type != "UserAction" {
			continue
		}
		if e.AuditID == s.Ses {
			cnt++
			if _, ei := h.eventIndexOf(e); ei == 2 {
				probe = true
			}
		}
		if e.AuditID == bs.Ses {
			if si, ei := h.eventIndexOf(e); si == 1 && ei == 1 {
				bprobe = true
			}
		}
	}
	rc.State(fmt.Sprintf("band%d/%d/%v", band, cnt, probe))
	if !bprobe {
		rc.Fail("C16", "correlated-session-discarded", "a correlated session stopped emitting after %d s of cleanup ticks (its late event was not emitted)", probeAt/1000)
	}
	switch {
	case gapS < 60 && (!probe || cnt < 3):
		rc.Fail("C16", "window-too-short", "halves %d s apart (< 60 s) were not correlated by the running processor: %d of 3 events emitted, probe emitted=%v (first half at %d s, login first=%v)", gapS, cnt, probe, t0/1000, loginFirst)
	case gapS > 120 && cnt > 0:
		rc.Fail("C16", "window-too-long", "halves %d s apart (> 120 s) were still correlated / held events emitted late: %d events emitted (first half at %d s, login first=%v)", gapS, cnt, t0/1000, loginFirst)
	}
	p.Shutdown()
	rc.Cleanup(func() { p.teardown() })
}

// ---- C16 L2 with a stalled Read loop (slow-thread fault) ----
//
// The Read goroutine is withheld by the scheduler for tens of simulated seconds (a stalled
// thread / a write that does not return), so cleanup ticks are served late. Halves whose
// arrival stamps are less than a minute apart must still be correlated: a cleanup processed at
// time T may only discard halves older than T - 1 min, whenever T happens to be.
func scnC16Stall(rc *RunCtx) {
	t := rc.Spec
	k := NewKaudit()
	w := &L1World{}
	pid := 6700 + t.Choose(100, "pid")
	y := &Session{Ses: fmt.Sprint(960 + t.Choose(9, "ses")), PID: pid, UID: 1000, Kind: "ssh"}
	y.Login = GenLogin(t, pid, 1)
	y.Events = append(y.Events, k.Login(y.Ses, pid, y.UID), GenAction(t, k, y.Ses, pid, y.UID), k.UserMsg("USER_LOGIN", y.Ses, pid, y.UID, true, 0))
	w.Sessions = []*Session{y}
	h := &History{W: w}
	if err := w.Prepare(); err != nil {
		rc.Abort("world: %v", err)
		return
	}
	stallFrom := 30 + t.Choose(40, "stall.from") // s
	stallLen := 35 + t.Choose(50, "stall.len")   // s
	stallTo := stallFrom + stallLen
	loginFirst := t.Choose(2, "loginfirst") == 1
	first := stallTo - 1 - t.Choose(15, "first.before.end") // first half arrives during the stall
	gap := 5 + t.Choose(50, "gap")                          // 5..54 s
	second := first + gap
	var sshdTL, auditTL []TLItem
	if loginFirst {
		sshdTL = append(sshdTL, TLItem{AtMs: first * 1000, Kind: "login", S: 0})
		auditTL = append(auditTL, TLItem{AtMs: second * 1000, Kind: "event", S: 0, E: 0}, TLItem{AtMs: second * 1000, Kind: "event", S: 0, E: 1})
	} else {
		auditTL = append(auditTL, TLItem{AtMs: first * 1000, Kind: "event", S: 0, E: 0}, TLItem{AtMs: first * 1000, Kind: "event", S: 0, E: 1})
		sshdTL = append(sshdTL, TLItem{AtMs: second * 1000, Kind: "login", S: 0})
	}
	probeAt := second*1000 + 3000
	auditTL = append(auditTL, TLItem{AtMs: probeAt, Kind: "event", S: 0, E: 2})
	p := newPipeline(rc, 2, h, sshdTL, auditTL)
	rc.Sim.Policy = simrt.PolicyRunToBlock
	rc.Sim.Frozen = func(name string) bool {
		now := rc.SimNow()
		return name == "auditd.Read" && now >= time.Duration(stallFrom)*time.Second && now < time.Duration(stallTo)*time.Second
	}
	if err := p.Start(); err != nil {
		rc.Abort("start: %v", err)
		return
	}
	endMs := probeAt
	if stallTo*1000 > endMs {
		endMs = stallTo * 1000
	}
	ok := p.Run(nil, time.Duration(endMs+4000)*time.Millisecond, 500*time.Millisecond, 400000)
	rc.Sim.Count("consumer.stall")
	rc.CaseKey(stallFrom, stallLen, first, gap, loginFirst, pid)
	rc.R.NonTrivial = true
	rc.R.Sample = map[string]any{"read_loop_stalled_s": []int{stallFrom, stallTo}, "first_half_at_s": first, "gap_s": gap, "login_first": loginFirst, "written": len(p.Out)}
	if !ok {
		rc.Abort("step budget exhausted: %v", rc.Sim.Live())
		return
	}
	if p.ReadDone || len(p.procErrs) > 0 {
		rc.Abort("processors stopped in a fault-free run: %v %v", p.ReadErr, p.procErrs)
		return
	}
	// the stamps the daemon itself put on the halves: the login's UserLogin.loggedAt (sshd
	// processor) and the moment the LOGIN record was handed to the daemon
	cnt, probe := 0, false
	for _, e := range p.Out {
		if e.Type == "UserAction" && e.AuditID == y.Ses {
			cnt++
			if _, ei := h.eventIndexOf(e); ei == 2 {
				probe = true
			}
		}
	}
	rc.State(fmt.Sprintf("stall/%d/%v", cnt, probe))
	if !probe || cnt < 3 {
		rc.Fail("C16", "window-too-short", "halves %d s apart (< 60 s) were not correlated when cleanup ticks were served late (Read loop stalled from %d s to %d s; first half at %d s, login first=%v): %d of 3 events emitted",
			gap, stallFrom, stallTo, first, loginFirst, cnt)
	}
	p.Shutdown()
	rc.Cleanup(func() { p.teardown() })
}
