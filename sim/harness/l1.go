package verifsim

import (
	"fmt"
	"sort"
	"strings"
	"time"

	"github.com/elastic/go-libaudit/v2/aucoalesce"
	"github.com/metal-toolbox/auditevent"

	"github.com/metal-toolbox/audito-maldito/internal/common"
	"github.com/metal-toolbox/audito-maldito/internal/simrt"
	"github.com/metal-toolbox/audito-maldito/processors/auditd/sessiontracker"
)

// ------------------------------------------------------------------------------
// L1: the real session tracker driven through its API.
// ------------------------------------------------------------------------------

// tracker is the API of the (unexported) sessionTracker type.
type tracker interface {
	RemoteLogin(common.RemoteUserLogin) error
	AuditdEvent(*aucoalesce.Event) error
	DeleteUsersWithoutLoginsBefore(time.Time)
	DeleteRemoteUserLoginsBefore(time.Time)
}

func newTracker(enc auditevent.EventEncoder) tracker {
	return sessiontracker.NewSessionTracker(auditevent.NewAuditEventWriter(enc), runLogger)
}

// L1Op is one delivery to the correlator.
type L1Op struct {
	Kind string `json:"op"`            // login | event | cleanup | sleep
	S    int    `json:"s"`             // session index
	E    int    `json:"e,omitempty"`   // event index within the session
	Cut  int    `json:"cut,omitempty"` // cleanup: cut-off relative to now, in seconds (negative = past)
	Ms   int    `json:"ms,omitempty"`  // sleep
}

func (o L1Op) String() string {
	switch o.Kind {
	case "login":
		return fmt.Sprintf("login(s%d)", o.S)
	case "badlogin":
		return fmt.Sprintf("invalid-login(pid 0, s%d)", o.S)
	case "event":
		return fmt.Sprintf("event(s%d.%d)", o.S, o.E)
	case "cleanup":
		return fmt.Sprintf("cleanup(now%+ds)", o.Cut)
	case "sleep":
		return fmt.Sprintf("sleep(%dms)", o.Ms)
	}
	return o.Kind
}

// L1World is a set of sessions with their coalesced events.
type L1World struct {
	Sessions []*Session
	evs      [][]*aucoalesce.Event
	bySeq    map[int64]*KEvent // loggedAt (unix ms) -> kernel event
	sesOf    map[int64]int
}

func (w *L1World) Prepare() error {
	w.evs = nil
	w.bySeq = map[int64]*KEvent{}
	w.sesOf = map[int64]int{}
	for si, s := range w.Sessions {
		var l []*aucoalesce.Event
		for _, e := range s.Events {
			ce, err := e.Coalesce()
			if err != nil {
				return err
			}
			l = append(l, ce)
			w.bySeq[e.TS.UnixMilli()] = e
			w.sesOf[e.TS.UnixMilli()] = si
		}
		w.evs = append(w.evs, l)
	}
	return nil
}

// Exec runs one op against tr. Logins are built fresh (so nothing is shared between
// executions); loginAt is the login event's LoggedAt.
func (w *L1World) Exec(tr tracker, op L1Op) error {
	switch op.Kind {
	case "login":
		return tr.RemoteLogin(MakeRUL(w.Sessions[op.S].Login, time.Now()))
	case "event":
		return tr.AuditdEvent(w.evs[op.S][op.E])
	case "badlogin":
		// an invalid login (PID 0): the correlator must reject it and stay usable
		r := MakeRUL(w.Sessions[op.S].Login, time.Now())
		r.PID = 0
		return tr.RemoteLogin(r)
	case "cleanup":
		cut := time.Now().Add(time.Duration(op.Cut) * time.Second)
		tr.DeleteUsersWithoutLoginsBefore(cut)
		tr.DeleteRemoteUserLoginsBefore(cut)
	case "sleep":
		time.Sleep(time.Duration(op.Ms) * time.Millisecond)
	}
	return nil
}

// Observable renders what was emitted: per session the ordered list of
// (kernel event seq, identity) plus anything not attributable.
func (w *L1World) Observable(evs []*OutEvent, errs []string) string {
	per := map[string][]string{}
	for _, e := range evs {
		k := "?"
		if ke, ok := w.bySeq[e.LoggedAt.UnixMilli()]; ok {
			k = fmt.Sprint(ke.Seq)
		}
		per[e.AuditID] = append(per[e.AuditID], k+"="+hashStr(e.Identity())[:8])
	}
	var keys []string
	for k := range per {
		keys = append(keys, k)
	}
	sort.Strings(keys)
	var b strings.Builder
	for _, k := range keys {
		fmt.Fprintf(&b, "ses%s:[%s] ", k, strings.Join(per[k], ","))
	}
	sort.Strings(errs)
	if len(errs) > 0 {
		fmt.Fprintf(&b, "errs:%v", errs)
	}
	return b.String()
}

// seqOutcomes enumerates every sequential order consistent with each task's program
// order, runs each on a fresh real tracker (inline, no scheduling) followed by probes, and
// returns the set of observables.
func (w *L1World) seqOutcomes(pre []L1Op, preSleep time.Duration, prog [][]L1Op, probes []L1Op, limit int) (map[string]string, int) {
	out := map[string]string{}
	idx := make([]int, len(prog))
	var order []L1Op
	var ordTasks []int
	n := 0
	var rec func()
	rec = func() {
		if n >= limit {
			return
		}
		done := true
		for t := range prog {
			if idx[t] < len(prog[t]) {
				done = false
				order = append(order, prog[t][idx[t]])
				ordTasks = append(ordTasks, t)
				idx[t]++
				rec()
				idx[t]--
				order = order[:len(order)-1]
				ordTasks = ordTasks[:len(ordTasks)-1]
			}
		}
		if done {
			n++
			r := &Recorder{NoPoint: true}
			tr := newTracker(r)
			var errs []string
			stuck := w.execAllInline(tr, pre, &errs)
			time.Sleep(preSleep)
			if stuck == "" {
				stuck = w.execAllInline(tr, append(append([]L1Op{}, order...), probes...), &errs)
			}
			obs := w.Observable(r.Events, errs)
			if stuck != "" {
				obs += " STUCK:" + stuck
			}
			if _, ok := out[obs]; !ok {
				out[obs] = fmt.Sprint(ordTasks)
			}
		}
	}
	rec()
	return out, n
}

// execAllInline runs ops sequentially on the scheduler goroutine; a self-deadlock of the code
// under test ends the execution and is reported.
func (w *L1World) execAllInline(tr tracker, ops []L1Op, errs *[]string) (stuck string) {
	defer func() {
		if r := recover(); r != nil {
			if d, ok := r.(simrt.InlineDeadlock); ok {
				stuck = d.Site
				return
			}
			panic(r)
		}
	}()
	for _, op := range ops {
		if err := w.Exec(tr, op); err != nil {
			*errs = append(*errs, op.String()+":"+errClass(err))
		}
	}
	return ""
}

func errClass(err error) string {
	s := err.Error()
	if len(s) > 60 {
		s = s[:60]
	}
	return s
}

type seqCacheEntry struct {
	outs map[string]string
	n    int
}

var seqCache = map[string]*seqCacheEntry{}

func progKey(w *L1World, prog [][]L1Op, probes []L1Op) string {
	var b strings.Builder
	for _, s := range w.Sessions {
		fmt.Fprintf(&b, "S%s/%d/%d;", s.Ses, s.PID, len(s.Events))
		if s.Login != nil {
			fmt.Fprintf(&b, "%+v;", *s.Login)
		}
		for _, e := range s.Events {
			b.WriteString(strings.Join(e.Lines, "\n"))
			b.WriteString(";")
		}
	}
	fmt.Fprintf(&b, "%v|%v", prog, probes)
	return hashStr(b.String())
}

// progRunner executes program threads as simulated tasks. Its methods are excluded from
// race instrumentation: they touch harness state only (the tracker calls they make are
// instrumented as usual).
type progRunner struct {
	w         *L1World
	tr        tracker
	remaining int
	errs      []string
}

//go:norace
func (p *progRunner) run(ops []L1Op) {
	for i, op := range ops {
		if i > 0 {
			simrt.Point("between-deliveries") // a task can be preempted between two deliveries
		}
		if err := p.w.Exec(p.tr, op); err != nil {
			p.errs = append(p.errs, op.String()+":"+errClass(err))
		}
	}
	p.remaining--
}

func (p *progRunner) done() bool { return p.remaining == 0 }

// spawnProgram starts one simulated task per program thread.
func spawnProgram(rc *RunCtx, w *L1World, tr tracker, prog [][]L1Op) *progRunner {
	p := &progRunner{w: w, tr: tr, remaining: len(prog)}
	for ti, ops := range prog {
		ops := ops
		rc.Sim.Spawn(fmt.Sprintf("T%d", ti), func() { p.run(ops) })
	}
	return p
}

func pickPolicy(rc *RunCtx, maxSteps int) string {
	switch rc.Sim.Tape.Choose(4, "policy") {
	case 0:
		rc.Sim.Policy = simrt.PolicyRandom
		return "random"
	case 1:
		rc.Sim.InitPCT(1+rc.Sim.Tape.Choose(3, "pct.d"), maxSteps)
		return "pct"
	case 2:
		rc.Sim.Policy = simrt.PolicyBiased
		rc.Sim.Tape.Bias = 0.8
		return "biased"
	default:
		rc.Sim.Policy = simrt.PolicyBiased
		rc.Sim.Tape.Bias = 0.5
		return "biased50"
	}
}
