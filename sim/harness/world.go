package verifsim

import (
	"encoding/hex"
	"encoding/json"
	"fmt"
	"strconv"
	"strings"
	"time"

	"github.com/elastic/go-libaudit/v2/aucoalesce"
	"github.com/elastic/go-libaudit/v2/auparse"
	"github.com/metal-toolbox/auditevent"

	"github.com/metal-toolbox/audito-maldito/internal/common"
	"github.com/metal-toolbox/audito-maldito/internal/simrt"
)

// ------------------------------------------------------------------------------
// World models: stubs of sshd, the kernel audit subsystem and rsyslog. They print what
// those programs print, with ground truth attached. They are not code under test.
// ------------------------------------------------------------------------------

// KEvent is one kernel audit event (one or more records sharing a sequence number).
type KEvent struct {
	Seq      int       `json:"seq"`
	TS       time.Time `json:"-"`
	TSStr    string    `json:"ts"` // "1668460768.196"
	Type     string    `json:"type"`
	Ses      string    `json:"ses"` // "" = no ses field; "4294967295" = unset
	PID      int       `json:"pid"`
	Success  bool      `json:"success"`             // ground truth result
	NoResult bool      `json:"no_result,omitempty"` // the record carries no result field at all
	Args     []string  `json:"args,omitempty"`
	Lines    []string  `json:"-"`
	NRec     int       `json:"nrec"`
}

// LoginSpec is one accepted sshd authentication.
type LoginSpec struct {
	PID    int    `json:"pid"`
	User   string `json:"user"`
	IP     string `json:"ip"`
	Port   int    `json:"port"`
	Form   string `json:"form"` // key | keypad | cert | password
	KeyID  string `json:"keyid,omitempty"`
	Serial uint64 `json:"serial,omitempty"`
	// SerialText, when set, is printed in place of Serial (digit strings a uint64 does not hold,
	// leading zeros)
	SerialText string `json:"serialtext,omitempty"`
	Alg        string `json:"alg,omitempty"`
	FP         string `json:"fp,omitempty"`
	CAFP       string `json:"cafp,omitempty"`
	Pad        string `json:"pad,omitempty"`
}

// Message is what sshd logs (no PID, no newline).
func (l *LoginSpec) Message() string {
	switch l.Form {
	case "password":
		return fmt.Sprintf("Accepted password for %s from %s port %d ssh2", l.User, l.IP, l.Port)
	case "cert":
		serial := fmt.Sprint(l.Serial)
		if l.SerialText != "" {
			serial = l.SerialText
		}
		return fmt.Sprintf("Accepted publickey for %s from %s port %d ssh2: %s-CERT SHA256:%s ID %s (serial %s) CA %s SHA256:%s",
			l.User, l.IP, l.Port, l.Alg, l.FP, l.KeyID, serial, l.Alg, l.CAFP)
	case "keypad":
		return fmt.Sprintf("Accepted publickey for %s from %s port %d ssh2: %s SHA256:%s %s", l.User, l.IP, l.Port, l.Alg, l.FP, l.Pad)
	default:
		return fmt.Sprintf("Accepted publickey for %s from %s port %d ssh2: %s SHA256:%s", l.User, l.IP, l.Port, l.Alg, l.FP)
	}
}

// Line is the rsyslog framing "%PROCID% %msg%\n" (msg optionally with its leading blank).
func (l *LoginSpec) Line(leadingBlank bool) string {
	sp := " "
	if leadingBlank {
		sp = "  "
	}
	return fmt.Sprintf("%d%s%s\n", l.PID, sp, l.Message())
}

// ExpCredUserID is what the correlator must be told.
func (l *LoginSpec) ExpCredUserID() string {
	if l.Form == "cert" {
		return l.KeyID
	}
	return "unknown"
}

// Session is one audit session with ground truth.
type Session struct {
	Ses    string     `json:"ses"`
	PID    int        `json:"pid"`
	UID    int        `json:"uid"`
	Kind   string     `json:"kind"` // ssh | cron | nologin-record
	Login  *LoginSpec `json:"login,omitempty"`
	Events []*KEvent  `json:"events"`
}

// Kaudit generates kernel audit events with strictly increasing sequence numbers and a
// unique millisecond per event.
type Kaudit struct {
	seq  int
	base int64 // unix ms
	n    int64
	used map[int64]bool
}

func NewKaudit() *Kaudit { return &Kaudit{seq: 30000, base: 1668460000000, used: map[int64]bool{}} }

// NewKauditAt starts the kernel clock at the given instant (the daemon's clock and the
// kernel timestamps of a replayed backlog need not agree).
func NewKauditAt(t time.Time) *Kaudit {
	return &Kaudit{seq: 30000, base: t.UnixMilli(), used: map[int64]bool{}}
}

// StepBack moves the kernel clock backwards (NTP step): later events carry earlier
// timestamps while sequence numbers keep increasing.
func (k *Kaudit) StepBack(ms int64) { k.base -= ms }

// NearSerialWrap puts the kernel's 32-bit audit serial number k events before its wrap-around.
func (k *Kaudit) NearSerialWrap(before int) { k.seq = (1 << 32) - 1 - before }

func (k *Kaudit) next() (int, time.Time, string) {
	k.seq++
	if k.seq > (1<<32)-1 {
		k.seq = 0 // the serial is a 32-bit counter
	}
	k.n++
	ms := k.base + k.n*7
	for k.used[ms] {
		ms++ // every kernel event keeps a unique millisecond (the oracles key on it)
	}
	k.used[ms] = true
	ts := time.UnixMilli(ms).UTC()
	return k.seq, ts, fmt.Sprintf("%d.%03d", ms/1000, ms%1000)
}

func sesField(ses string) string {
	if ses == "" {
		return ""
	}
	return " ses=" + ses
}

// Login prints the LOGIN record that opens session ses for process pid.
func (k *Kaudit) Login(ses string, pid, uid int) *KEvent {
	seq, ts, tss := k.next()
	l := fmt.Sprintf("type=LOGIN msg=audit(%s:%d): pid=%d uid=0 old-auid=4294967295 auid=%d tty=(none) old-ses=4294967295 ses=%s res=1",
		tss, seq, pid, uid, ses)
	return &KEvent{Seq: seq, TS: ts, TSStr: tss, Type: "LOGIN", Ses: ses, PID: pid, Success: true, Lines: []string{l}, NRec: 1}
}

// LoginNested prints the LOGIN record of a process inside session oldSes that gets an audit
// session of its own (su, sudo -i or login with pam_loginuid): old-ses names the session it
// came from.
func (k *Kaudit) LoginNested(ses, oldSes string, pid, uid, oldUID int) *KEvent {
	seq, ts, tss := k.next()
	l := fmt.Sprintf("type=LOGIN msg=audit(%s:%d): pid=%d uid=0 old-auid=%d auid=%d tty=pts0 old-ses=%s ses=%s res=1",
		tss, seq, pid, oldUID, uid, oldSes, ses)
	return &KEvent{Seq: seq, TS: ts, TSStr: tss, Type: "LOGIN", Ses: ses, PID: pid, Success: true, Lines: []string{l}, NRec: 1}
}

var userMsgOps = map[string]string{
	"USER_START": "PAM:session_open", "USER_END": "PAM:session_close", "CRED_DISP": "PAM:setcred",
	"CRED_ACQ": "PAM:setcred", "USER_ACCT": "PAM:accounting", "CRED_REFR": "PAM:setcred", "USER_LOGIN": "login",
	"USER_LOGOUT": "login", "USER_AUTH": "PAM:authentication", "USER_ERR": "PAM:bad_ident",
}

// UserMsg prints a single-record user-space event (USER_START, CRED_DISP, ...).
// resForm: 0 "success"/"failed" words, 1 numeric 1/0.
func (k *Kaudit) UserMsg(typ, ses string, pid, uid int, ok bool, resForm int) *KEvent {
	seq, ts, tss := k.next()
	res := "success"
	if !ok {
		res = "failed"
	}
	if resForm == 1 {
		res = "1"
		if !ok {
			res = "0"
		}
	}
	l := fmt.Sprintf("type=%s msg=audit(%s:%d): pid=%d uid=0 auid=%d%s msg='op=%s grantors=pam_permit acct=\"user%d\" exe=\"/usr/sbin/sshd\" hostname=10.0.0.1 addr=10.0.0.1 terminal=ssh res=%s'",
		typ, tss, seq, pid, uid, sesField(ses), userMsgOps[typ], uid, res)
	return &KEvent{Seq: seq, TS: ts, TSStr: tss, Type: typ, Ses: ses, PID: pid, Success: ok, Lines: []string{l}, NRec: 1}
}

// UserTTY prints a keystroke-logging record (pam_tty_audit). It carries no result field, so
// the audit result is not "success".
func (k *Kaudit) UserTTY(ses string, pid, uid int) *KEvent {
	seq, ts, tss := k.next()
	l := fmt.Sprintf("type=USER_TTY msg=audit(%s:%d): pid=%d uid=%d auid=%d%s major=136 minor=0 comm=\"bash\" data=6C73202F726F6F740D",
		tss, seq, pid, uid, uid, sesField(ses))
	return &KEvent{Seq: seq, TS: ts, TSStr: tss, Type: "USER_TTY", Ses: ses, PID: pid, Success: false, NoResult: true, Lines: []string{l}, NRec: 1}
}

// Exec prints a compound execve event: SYSCALL [+EXECVE] +CWD +PATH.. terminated by
// PROCTITLE or by EOE.
func (k *Kaudit) Exec(ses string, pid, uid int, argv []string, ok bool, withExecve, eoe bool) *KEvent {
	seq, ts, tss := k.next()
	succ, exit := "yes", "0"
	if !ok {
		succ, exit = "no", "-13"
	}
	hdr := fmt.Sprintf("msg=audit(%s:%d):", tss, seq)
	exe := "/usr/bin/" + argv[0]
	var ls []string
	ls = append(ls, fmt.Sprintf("type=SYSCALL %s arch=c000003e syscall=59 success=%s exit=%s a0=55d0 a1=55d1 a2=55d2 a3=8 items=2 ppid=%d pid=%d auid=%d uid=%d gid=%d euid=%d suid=%d fsuid=%d egid=%d sgid=%d fsgid=%d tty=pts0%s comm=\"%s\" exe=\"%s\" key=\"operator-commands\"",
		hdr, succ, exit, pid-1, pid, uid, uid, uid, uid, uid, uid, uid, uid, uid, sesField(ses), argv[0], exe))
	ev := &KEvent{Seq: seq, TS: ts, TSStr: tss, Type: "SYSCALL", Ses: ses, PID: pid, Success: ok}
	if withExecve {
		var b strings.Builder
		fmt.Fprintf(&b, "type=EXECVE %s argc=%d", hdr, len(argv))
		for i, a := range argv {
			if len(argv) > 40 && i > 0 && i%12 == 0 {
				// a long argument vector does not fit one record: the kernel continues it in further
				// EXECVE records of the same event (without argc)
				ls = append(ls, b.String())
				b.Reset()
				fmt.Fprintf(&b, "type=EXECVE %s", hdr)
			}
			if strings.ContainsAny(a, " \"'\t") {
				// the kernel hex-encodes arguments with blanks or quotes
				fmt.Fprintf(&b, " a%d=%s", i, strings.ToUpper(hex.EncodeToString([]byte(a))))
			} else {
				fmt.Fprintf(&b, " a%d=\"%s\"", i, a)
			}
		}
		ls = append(ls, b.String())
		ev.Args = argv
		if len(argv) > 40 {
			// (the coalescing library does not put a continued argument vector together again:
			// the audit event built from these records has no process arguments)
			ev.Args = nil
		}
	}
	ls = append(ls, fmt.Sprintf("type=CWD %s cwd=\"/home/user%d\"", hdr, uid))
	ls = append(ls, fmt.Sprintf("type=PATH %s item=0 name=\"%s\" inode=1442550 dev=fd:00 mode=0100755 ouid=0 ogid=0 rdev=00:00 nametype=NORMAL cap_fp=0 cap_fi=0 cap_fe=0 cap_fver=0 cap_frootid=0", hdr, exe))
	ls = append(ls, fmt.Sprintf("type=PATH %s item=1 name=\"/lib64/ld-linux-x86-64.so.2\" inode=1448144 dev=fd:00 mode=0100755 ouid=0 ogid=0 rdev=00:00 nametype=NORMAL cap_fp=0 cap_fi=0 cap_fe=0 cap_fver=0 cap_frootid=0", hdr))
	if eoe {
		ls = append(ls, fmt.Sprintf("type=EOE %s ", hdr))
	} else {
		ls = append(ls, fmt.Sprintf("type=PROCTITLE %s proctitle=%s", hdr, strings.ToUpper(hex.EncodeToString([]byte(strings.Join(argv, "\x00"))))))
	}
	ev.Lines = ls
	ev.NRec = len(ls)
	return ev
}

// Connect prints a socket syscall: SYSCALL + SOCKADDR (192.168.0.1:80) terminated by PROCTITLE.
func (k *Kaudit) Connect(ses string, pid, uid int) *KEvent {
	seq, ts, tss := k.next()
	hdr := fmt.Sprintf("msg=audit(%s:%d):", tss, seq)
	ls := []string{
		fmt.Sprintf("type=SYSCALL %s arch=c000003e syscall=42 success=yes exit=0 a0=3 a1=7ffd a2=10 a3=0 items=0 ppid=%d pid=%d auid=%d uid=%d gid=%d euid=%d suid=%d fsuid=%d egid=%d sgid=%d fsgid=%d tty=pts0%s comm=\"curl\" exe=\"/usr/bin/curl\" key=\"network\"",
			hdr, pid-1, pid, uid, uid, uid, uid, uid, uid, uid, uid, uid, sesField(ses)),
		fmt.Sprintf("type=SOCKADDR %s saddr=02000050C0A800010000000000000000", hdr),
		fmt.Sprintf("type=PROCTITLE %s proctitle=6375726C00687474703A2F2F3139322E3136382E302E31", hdr),
	}
	return &KEvent{Seq: seq, TS: ts, TSStr: tss, Type: "SYSCALL", Ses: ses, PID: pid, Success: true, Lines: ls, NRec: len(ls)}
}

// OpenLongPath prints an openat of a file whose name is close to PATH_MAX and contains a blank, so
// that the kernel hex-encodes it: one PATH record of more than 8 KB (below the kernel's 8970).
func (k *Kaudit) OpenLongPath(ses string, pid, uid int) *KEvent {
	seq, ts, tss := k.next()
	hdr := fmt.Sprintf("msg=audit(%s:%d):", tss, seq)
	name := "/srv/data/" + strings.Repeat("d", 4080) + "/a b"
	ls := []string{
		fmt.Sprintf("type=SYSCALL %s arch=c000003e syscall=257 success=yes exit=3 a0=ffffff9c a1=7ffd a2=0 a3=0 items=1 ppid=%d pid=%d auid=%d uid=%d gid=%d euid=%d suid=%d fsuid=%d egid=%d sgid=%d fsgid=%d tty=pts0%s comm=\"cat\" exe=\"/usr/bin/cat\" key=\"files\"",
			hdr, pid-1, pid, uid, uid, uid, uid, uid, uid, uid, uid, uid, sesField(ses)),
		fmt.Sprintf("type=CWD %s cwd=\"/home/user%d\"", hdr, uid),
		fmt.Sprintf("type=PATH %s item=0 name=%s inode=1442551 dev=fd:00 mode=0100644 ouid=0 ogid=0 rdev=00:00 nametype=NORMAL cap_fp=0 cap_fi=0 cap_fe=0 cap_fver=0 cap_frootid=0", hdr, strings.ToUpper(hex.EncodeToString([]byte(name)))),
		fmt.Sprintf("type=PROCTITLE %s proctitle=636174", hdr),
	}
	return &KEvent{Seq: seq, TS: ts, TSStr: tss, Type: "SYSCALL", Ses: ses, PID: pid, Success: true, Lines: ls, NRec: len(ls)}
}

// AVC prints a compound SELinux denial: AVC + SYSCALL terminated by PROCTITLE.
func (k *Kaudit) AVC(ses string, pid, uid int) *KEvent {
	seq, ts, tss := k.next()
	hdr := fmt.Sprintf("msg=audit(%s:%d):", tss, seq)
	ls := []string{
		fmt.Sprintf("type=AVC %s avc:  denied  { read } for  pid=%d comm=\"cat\" name=\"shadow\" dev=\"dm-0\" ino=1234 scontext=system_u:system_r:httpd_t:s0 tcontext=system_u:object_r:shadow_t:s0 tclass=file permissive=0", hdr, pid),
		fmt.Sprintf("type=SYSCALL %s arch=c000003e syscall=257 success=no exit=-13 a0=ffffff9c a1=7ffd a2=0 a3=0 items=0 ppid=%d pid=%d auid=%d uid=%d gid=%d euid=%d suid=%d fsuid=%d egid=%d sgid=%d fsgid=%d tty=pts0%s comm=\"cat\" exe=\"/usr/bin/cat\" key=(null)",
			hdr, pid-1, pid, uid, uid, uid, uid, uid, uid, uid, uid, uid, sesField(ses)),
		fmt.Sprintf("type=PROCTITLE %s proctitle=636174002F6574632F736861646F77", hdr),
	}
	return &KEvent{Seq: seq, TS: ts, TSStr: tss, Type: "AVC", Ses: ses, PID: pid, Success: false, Lines: ls, NRec: len(ls)}
}

// Unterminated drops the record that ends the group (EOE or PROCTITLE): what a kernel without
// PROCTITLE support, or an exclude rule for that record type, leaves of a compound event.
func (e *KEvent) Unterminated() *KEvent {
	if n := len(e.Lines); n > 1 && (strings.HasPrefix(e.Lines[n-1], "type=EOE ") || strings.HasPrefix(e.Lines[n-1], "type=PROCTITLE ")) {
		e.Lines = e.Lines[:n-1]
		e.NRec = len(e.Lines)
	}
	return e
}

// Coalesce builds the *aucoalesce.Event the reassembler callback would hand to the
// correlator for this kernel event (real auparse + aucoalesce code).
func (e *KEvent) Coalesce() (*aucoalesce.Event, error) {
	var msgs []*auparse.AuditMessage
	for _, l := range e.Lines {
		m, err := auparse.ParseLogLine(l)
		if err != nil {
			return nil, fmt.Errorf("world model line does not parse: %q: %w", l, err)
		}
		if m.RecordType == auparse.AUDIT_EOE {
			continue
		}
		msgs = append(msgs, m)
	}
	ev, err := aucoalesce.CoalesceMessages(msgs)
	if err != nil {
		return nil, err
	}
	aucoalesce.ResolveIDs(ev)
	return ev, nil
}

// ------------------------------------------------------------------------------
// Generators
// ------------------------------------------------------------------------------

var users = []string{"alice", "bob", "carol", "dave", "erin", "frank", "root", "svc-x", "m.n", "ünï"}
var ips = []string{"10.0.0.7", "192.168.1.20", "2001:db8::1", "fe80::1%eth0", "172.16.3.4", "host.example.org"}
var algs = []string{"ED25519", "RSA", "ECDSA", "ED25519-SK"}
var cmds = [][]string{{"ls", "-la"}, {"cat", "/etc/resolv.conf"}, {"id"}, {"sudo", "-i"}, {"rm", "-rf", "/tmp/x"}, {"vi", "notes.txt"},
	{"grep", " 500 ", "access.log"}, {"sh", "-c", "echo \"done\" "}, {"touch", "\tfile with blanks "},
	{"git", "commit", "-mfixes-ticket#0351"}, {"less", "build#0352.log"}}

// userName draws an account name that is unique per login; some end in the upper-case letters
// "ID" (DAVID, ANDROID, svcID are ordinary account names).
func userName(t *simrt.Tape, uniq int) string {
	i := t.Choose(len(users)+2, "user")
	switch {
	case i < len(users):
		return fmt.Sprintf("%s%d", users[i], uniq)
	case i == len(users):
		return fmt.Sprintf("u%dDAVID", uniq)
	default:
		return fmt.Sprintf("svc%dID", uniq)
	}
}

func b64ish(t *simrt.Tape, n int) string {
	const cs = "ABCDEFGHIJKLMNOPQRSTUVWXYZabcdefghijklmnopqrstuvwxyz0123456789+/"
	b := make([]byte, n)
	for i := range b {
		b[i] = cs[t.Aux(len(cs))]
	}
	return string(b)
}

// GenLogin draws a login for pid. uniq makes identity fields distinct per login so that a
// mix-up between logins is always visible.
func GenLogin(t *simrt.Tape, pid, uniq int) *LoginSpec {
	l := &LoginSpec{PID: pid, User: userName(t, uniq),
		IP: ips[t.Choose(len(ips), "ip")], Port: 1024 + uniq*13 + t.Choose(7, "port"),
		Alg: algs[t.Choose(len(algs), "alg")], FP: b64ish(t, 43)}
	if t.Choose(8, "fp.id") == 7 {
		l.FP = l.FP[:41] + "ID" // a fingerprint may end in any two base64 characters
	}
	switch t.Choose(4, "form") {
	case 0:
		l.Form = "cert"
		l.KeyID = fmt.Sprintf("user%d@example.com", uniq)
		if t.Choose(4, "keyid-blank") == 1 {
			l.KeyID = fmt.Sprintf("User %d (ops)", uniq)
		}
		l.Serial = uint64(t.Choose(1000, "serial"))
		l.CAFP = b64ish(t, 43)
		if t.Choose(8, "ca-self") == 7 {
			// a self-signed certificate: the signing key is the certified key
			l.CAFP = l.FP
		}
	case 1:
		l.Form = "key"
	case 2:
		l.Form = "password"
	default:
		l.Form = "keypad"
		l.Pad = "extra-info"
	}
	return l
}

// GenSession draws an ssh session: LOGIN, then actions, then USER_END, CRED_DISP.
func GenSession(t *simrt.Tape, k *Kaudit, ses string, pid, uid, maxActions int) *Session {
	s := &Session{Ses: ses, PID: pid, UID: uid, Kind: "ssh"}
	s.Events = append(s.Events, k.Login(ses, pid, uid))
	n := t.Range(0, maxActions, "nactions")
	for i := 0; i < n; i++ {
		s.Events = append(s.Events, GenAction(t, k, ses, pid, uid))
	}
	if t.Choose(3, "user_end") != 0 {
		s.Events = append(s.Events, k.UserMsg("USER_END", ses, pid, uid, true, 0))
	}
	s.Events = append(s.Events, k.UserMsg("CRED_DISP", ses, pid, uid, true, 0))
	return s
}

// GenAction draws one event inside a session.
func GenAction(t *simrt.Tape, k *Kaudit, ses string, pid, uid int) *KEvent {
	switch t.Choose(8, "action") {
	case 6:
		return k.UserTTY(ses, pid+200+t.Choose(50, "cpid"), uid)
	case 7:
		// a nested PAM session (sudo, su) being closed: USER_END inside the session
		return k.UserMsg("USER_END", ses, pid+100+t.Choose(50, "cpid"), uid, t.Choose(4, "ok") != 0, t.Choose(2, "resform"))
	case 0:
		return k.UserMsg("USER_START", ses, pid, uid, t.Choose(4, "ok") != 0, t.Choose(2, "resform"))
	case 1:
		return k.UserMsg("USER_LOGIN", ses, pid, uid, t.Choose(4, "ok") != 0, t.Choose(2, "resform"))
	case 2:
		return k.UserMsg("CRED_ACQ", ses, pid+100+t.Choose(50, "cpid"), uid, true, 0)
	case 5:
		// a compound event that the kernel leads with a record other than SYSCALL
		return k.AVC(ses, pid+200+t.Choose(50, "cpid"), uid)
	default:
		ci := t.Choose(len(cmds)+1, "cmd")
		var argv []string
		if ci == len(cmds) {
			// a command line long enough for an EXECVE record of 4.5-6.6 KB (below the 7.5 KB at which
			// the kernel starts a second EXECVE record) and a UserAction of more than 4 KiB
			argv = []string{"tar", "czf", "/tmp/backup.tgz"}
			for i, n := 0, 200+t.Choose(100, "cmd.long"); i < n; i++ {
				argv = append(argv, fmt.Sprintf("file-%04d.dat", i))
			}
		} else {
			argv = cmds[ci]
		}
		return k.Exec(ses, pid+200+t.Choose(50, "cpid"), uid, argv, t.Choose(4, "ok") != 0, t.Choose(4, "execve") != 0, t.Choose(4, "eoe") == 0)
	}
}

// ------------------------------------------------------------------------------
// Output recording
// ------------------------------------------------------------------------------

// OutEvent is one event seen at the EventEncoder / output file, deep-copied.
type OutEvent struct {
	Seq       int                    `json:"seq"`
	Task      string                 `json:"task,omitempty"`
	Type      string                 `json:"type"`
	AuditID   string                 `json:"auditId"`
	LoggedAt  time.Time              `json:"loggedAt"`
	Outcome   string                 `json:"outcome"`
	Component string                 `json:"component"`
	Subjects  map[string]string      `json:"subjects"`
	Source    json.RawMessage        `json:"source"`
	Target    json.RawMessage        `json:"target"`
	Extra     map[string]any         `json:"extra,omitempty"`
	Data      json.RawMessage        `json:"data,omitempty"`
	Raw       string                 `json:"-"`
	Ptr       *auditevent.AuditEvent `json:"-"`
	StepAt    int                    `json:"-"`
}

// Identity is the (subjects, source, target) content, JSON-normalised.
func (o *OutEvent) Identity() string {
	sb, _ := json.Marshal(o.Subjects)
	return string(sb) + "|" + string(o.Source) + "|" + string(o.Target)
}

func snapshotEvent(ev *auditevent.AuditEvent) (*OutEvent, error) {
	raw, err := json.Marshal(ev)
	if err != nil {
		return nil, err
	}
	return parseOutEvent(raw)
}

func parseOutEvent(raw []byte) (*OutEvent, error) {
	var tmp struct {
		Metadata struct {
			AuditID string         `json:"auditId"`
			Extra   map[string]any `json:"extra"`
		} `json:"metadata"`
		Type      string            `json:"type"`
		LoggedAt  time.Time         `json:"loggedAt"`
		Source    json.RawMessage   `json:"source"`
		Outcome   string            `json:"outcome"`
		Subjects  map[string]string `json:"subjects"`
		Component string            `json:"component"`
		Target    json.RawMessage   `json:"target"`
		Data      json.RawMessage   `json:"data"`
	}
	if err := json.Unmarshal(raw, &tmp); err != nil {
		return nil, err
	}
	return &OutEvent{Type: tmp.Type, AuditID: tmp.Metadata.AuditID, LoggedAt: tmp.LoggedAt, Outcome: tmp.Outcome,
		Component: tmp.Component, Subjects: tmp.Subjects, Source: tmp.Source, Target: tmp.Target,
		Extra: tmp.Metadata.Extra, Data: tmp.Data, Raw: string(raw)}, nil
}

// Recorder is a harness-owned auditevent.EventEncoder (the existing seam of the tracker
// and the sshd processor). Every Encode is a scheduling point.
type Recorder struct {
	Sim     *simrt.Sim
	Events  []*OutEvent
	FailAt  int // 1-based call index that fails (0: never)
	FailAll bool
	SlowMs  int // every write takes this many simulated milliseconds (0: none)
	Calls   int
	OnEvent func(*OutEvent)
	NoPoint bool
	// PoisonActions makes the encoder behave like a consumer that edits the subjects of the
	// UserAction events it is handed (after they were recorded): if the daemon shares the
	// subjects map between an emitted event and its stored login, later events show it.
	// Only the subjects are edited: that is the map the daemon copies on purpose; target and
	// source.extra are shared by reference in the pinned code, which no property forbids.
	PoisonActions bool
}

type encodeErr struct{ n int }

func (e *encodeErr) Error() string { return fmt.Sprintf("injected write error at event #%d", e.n) }

//go:norace
func (r *Recorder) Encode(v any) error {
	if !r.NoPoint {
		simrt.Point("encode")
	}
	if r.SlowMs > 0 && !r.NoPoint {
		// a slow event sink: the write itself takes simulated time
		simrt.Sleep(time.Duration(r.SlowMs)*time.Millisecond, "encode.slow")
	}
	r.Calls++
	if r.FailAt > 0 && (r.Calls == r.FailAt || r.FailAll && r.Calls >= r.FailAt) {
		simrt.Count("disk.write_error")
		return &encodeErr{r.Calls}
	}
	ev, ok := v.(*auditevent.AuditEvent)
	if !ok {
		return fmt.Errorf("recorder: unexpected type %T", v)
	}
	oe, err := snapshotEvent(ev)
	if err != nil {
		return err
	}
	oe.Seq = len(r.Events)
	oe.Ptr = ev
	r.Events = append(r.Events, oe)
	if r.Sim != nil {
		r.Sim.Logf("encode #%d %s ses=%s at=%s", oe.Seq, oe.Type, oe.AuditID, oe.LoggedAt.Format("15:04:05.000"))
	}
	if r.OnEvent != nil {
		r.OnEvent(oe)
	}
	if r.PoisonActions && ev.Type == "UserAction" {
		if ev.Subjects != nil {
			ev.Subjects["zz-edited-by-consumer"] = fmt.Sprint(oe.Seq)
			delete(ev.Subjects, "pid")
		}
	}
	return nil
}

// MakeRUL builds the login the sshd processor would forward for l (used at tracker level,
// where the sshd processor is not in the loop).
func MakeRUL(l *LoginSpec, at time.Time) common.RemoteUserLogin {
	ev := auditevent.NewAuditEvent(common.ActionLoginIdentifier,
		auditevent.EventSource{Type: "IP", Value: l.IP, Extra: map[string]any{"port": strconv.Itoa(l.Port)}},
		auditevent.OutcomeSucceeded,
		map[string]string{"loggedAs": l.User, "userID": l.ExpCredUserID(), "pid": strconv.Itoa(l.PID)},
		"sshd").WithTarget(map[string]string{"host": "node-" + l.User, "machine-id": "mid-" + strconv.Itoa(l.PID)})
	ev.LoggedAt = at
	return common.RemoteUserLogin{Source: ev, PID: l.PID, CredUserID: l.ExpCredUserID()}
}

func identityOfEvent(ev *auditevent.AuditEvent) string {
	oe, _ := snapshotEvent(ev)
	return oe.Identity()
}
