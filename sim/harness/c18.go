package verifsim

import (
	"context"
	"encoding/json"
	"errors"
	"fmt"
	"net/http"
	"net/http/httptest"
	"sort"
	"strings"
	"time"

	"github.com/anishathalye/porcupine"

	"github.com/metal-toolbox/audito-maldito/internal/health"
	"github.com/metal-toolbox/audito-maldito/internal/simrt"
)

// C18: readiness is reported only when every registered component is ready.

const c18Group = 48

func init() {
	register(&propDef{
		ID: "C18", Level: "exploration",
		Families: []family{
			{Name: "concurrent-api", Fn: scnC18Concurrent, Weight: 3, Group: c18Group},
			{Name: "wait-for-ready", Fn: scnC18Wait, Weight: 1},
		},
		Rule: "concurrent-api: 2-3 simulated tasks issue AddReadiness / OnReady / IsReady (the poll behind WaitForReady) / status requests (GET, every fourth one HEAD, some POST, served by ReadyzHandler into a response recorder; a HEAD probe is judged by its status code) over 1-3 component names (in a sixth of the runs more than 4 KB long) incl. re-registration, <=12 operations, " +
			"interleaved at lock granularity (baseline, single-preemption sweep, PCT, random); every response must be internally consistent and the recorded invoke/return history must be linearizable " +
			"against a map model (porcupine); wait-for-ready: registrations and ready-marks separated by fake-clock advances (0.1-1.2 s, in a sixth of the steps 6 min or 1 h), one to three waiters each with its own context (started and cancelled at taped steps); WaitForReady may complete only at an instant at which the model is ready, " +
			"yields its own context's error (and only then an error) when cancelled first (success after a cancellation is accepted only if everything was ready within one polling interval of it), and does complete once everything has been ready for three polling intervals; " +
			"non-trivial = at least one preemption and one status request overlapping another task's update (concurrent) / a not-ready phase before completion (wait); distinct = distinct (program hash, schedule hash)",
		Quick: 80 * c18Group, Thorough: 4000 * c18Group,
		Race: true, RaceQuick: 4 * c18Group, RaceThorough: 200 * c18Group,
	})
}

type c18Op struct {
	Kind string // add | ready | get | head | isready
	Name string
}

func (o c18Op) String() string {
	if o.Kind == "get" {
		return "GET /readyz"
	}
	if o.Kind == "head" {
		return "HEAD /readyz"
	}
	if o.Kind == "post" {
		return "POST /readyz"
	}
	if o.Kind == "isready" {
		return "IsReady()"
	}
	return o.Kind + "(" + o.Name + ")"
}

type c18Out struct {
	Code int
	Body map[string]string
}

type c18Rec struct {
	Client int
	Op     c18Op
	Out    c18Out
	Call   int64
	Ret    int64
}

type c18Log struct {
	clock int64
	recs  []c18Rec
	left  int
}

//go:norace
func (l *c18Log) stamp() int64 { l.clock++; return l.clock }

//go:norace
func (l *c18Log) add(r c18Rec) { l.recs = append(l.recs, r) }

//go:norace
func (l *c18Log) finish() { l.left-- }

func encodeState(m map[string]bool) string {
	var ks []string
	for k := range m {
		ks = append(ks, k)
	}
	sort.Strings(ks)
	var b strings.Builder
	for _, k := range ks {
		fmt.Fprintf(&b, "%s=%v;", k, m[k])
	}
	return b.String()
}

func decodeState(s string) map[string]bool {
	m := map[string]bool{}
	for _, p := range strings.Split(s, ";") {
		if p == "" {
			continue
		}
		kv := strings.SplitN(p, "=", 2)
		m[kv[0]] = kv[1] == "true"
	}
	return m
}

func expectedStatus(m map[string]bool) c18Out {
	body := map[string]string{}
	all := true
	for k, v := range m {
		if v {
			body[k] = health.ComponentReady
		} else {
			body[k] = health.ComponentNotReady
			all = false
		}
	}
	code := http.StatusOK
	if all {
		body[health.OverallReady] = health.ComponentReady
	} else {
		body[health.OverallReady] = health.ComponentNotReady
		code = http.StatusServiceUnavailable
	}
	return c18Out{code, body}
}

var c18Model = porcupine.Model{
	Init: func() interface{} { return "" },
	Step: func(state, input, output interface{}) (bool, interface{}) {
		m := decodeState(state.(string))
		op := input.(c18Op)
		switch op.Kind {
		case "add":
			m[op.Name] = false
			return true, encodeState(m)
		case "ready":
			m[op.Name] = true
			return true, encodeState(m)
		case "isready":
			// what WaitForReady polls: true exactly when every registered component is ready
			want := 1
			for _, v := range m {
				if !v {
					want = 0
				}
			}
			return output.(c18Out).Code == want, state
		default:
			want := expectedStatus(m)
			got := output.(c18Out)
			if op.Kind == "head" {
				// a HEAD probe is judged by its status code only (a server drops the body)
				return want.Code == got.Code, state
			}
			if want.Code != got.Code || len(want.Body) != len(got.Body) {
				return false, state
			}
			for k, v := range want.Body {
				if got.Body[k] != v {
					return false, state
				}
			}
			return true, state
		}
	},
	DescribeOperation: func(input, output interface{}) string {
		return fmt.Sprintf("%v -> %v", input, output)
	},
}

func doStatus(h *health.Health, method string) c18Out {
	rr := httptest.NewRecorder()
	h.ReadyzHandler().ServeHTTP(rr, httptest.NewRequest(method, "/readyz", nil))
	out := c18Out{Code: rr.Code, Body: map[string]string{}}
	json.Unmarshal(rr.Body.Bytes(), &out.Body)
	return out
}

func scnC18Concurrent(rc *RunCtx) {
	t := rc.Spec
	names := []string{"named-pipe-processor", "auditd-processor", "x"}[:1+t.Choose(3, "nnames")]
	if t.Choose(6, "name.long") == 5 {
		// long component names: the status document no longer fits any small buffer
		for i := range names {
			names[i] += "-" + strings.Repeat("x", 4200+400*i)
		}
		rc.Sim.Count("c18.long_names")
	}
	if t.Choose(5, "name.overall") == 0 {
		// a component may be called like the key that carries the overall verdict
		names[len(names)-1] = health.OverallReady
	}
	nt := 2 + t.Choose(2, "ntasks")
	var prog [][]c18Op
	total := 0
	registered := map[string]bool{}
	// sequential prefix (executed before the tasks start) so that ready-marks refer to
	// registered components
	var prefix []c18Op
	for _, n := range names {
		if t.Choose(3, "pre") != 0 {
			prefix = append(prefix, c18Op{"add", n})
			registered[n] = true
		}
	}
	for ti := 0; ti < nt; ti++ {
		var ops []c18Op
		k := 1 + t.Choose(4, "nops")
		mine := map[string]bool{}
		for i := 0; i < k && total < 12; i++ {
			total++
			switch t.Choose(4, "kind") {
			case 3:
				ops = append(ops, c18Op{"isready", ""})
			case 0:
				n := names[t.Choose(len(names), "name")]
				ops = append(ops, c18Op{"add", n})
				mine[n] = true
			case 1:
				// only components this task (or the prefix) registered before
				var cand []string
				for _, n := range names {
					if mine[n] || registered[n] {
						cand = append(cand, n)
					}
				}
				if len(cand) == 0 {
					ops = append(ops, c18Op{"get", ""})
				} else {
					ops = append(ops, c18Op{"ready", cand[t.Choose(len(cand), "name")]})
				}
			default:
				// every fourth status request is a HEAD probe, as load balancers send
				if total%4 == 3 {
					ops = append(ops, c18Op{"head", ""})
				} else if total%7 == 5 {
					ops = append(ops, c18Op{"post", ""}) // any other method is answered like GET
				} else {
					ops = append(ops, c18Op{"get", ""})
				}
			}
		}
		prog = append(prog, ops)
	}
	var desc []string
	desc = append(desc, fmt.Sprintf("prefix: %v", prefix))
	for i, ops := range prog {
		desc = append(desc, fmt.Sprintf("T%d: %v", i, ops))
	}
	rc.CaseKey(strings.Join(desc, "|"))
	sched := ""
	switch {
	case rc.Sub == 0:
		rc.Sim.Policy = simrt.PolicyRunToBlock
		sched = "baseline"
	case rc.Sub <= 3*10:
		k := (rc.Sub - 1) % 3 % nt
		j := (rc.Sub - 1) / 3
		rc.Sim.Policy = simrt.PolicySweep
		rc.Sim.SweepTask = fmt.Sprintf("T%d", k)
		rc.Sim.SweepAt = j + 1
		sched = fmt.Sprintf("sweep(T%d@%d)", k, j+1)
	default:
		sched = pickPolicy(rc, 80)
	}
	h := health.NewHealth()
	lg := &c18Log{left: nt}
	exec := func(client int, op c18Op) {
		call := lg.stamp()
		var out c18Out
		switch op.Kind {
		case "add":
			h.AddReadiness(op.Name)
		case "ready":
			h.OnReady(op.Name)
		case "isready":
			if h.IsReady() {
				out.Code = 1
			}
		case "head":
			out = doStatus(h, http.MethodHead)
		case "post":
			out = doStatus(h, http.MethodPost)
		default:
			out = doStatus(h, http.MethodGet)
		}
		lg.add(c18Rec{client, op, out, call, lg.stamp()})
	}
	for _, op := range prefix {
		exec(99, op)
	}
	for ti, ops := range prog {
		ti, ops := ti, ops
		rc.Sim.Spawn(fmt.Sprintf("T%d", ti), func() {
			for _, op := range ops {
				exec(ti, op)
			}
			lg.finish()
		})
	}
	why := rc.Sim.RunUntil(func() bool { return lg.left == 0 }, 20000)
	rc.R.Sample = map[string]any{"program": desc, "schedule": sched}
	if why != "stop" {
		if dl := rc.Sim.Deadlocked(); len(dl) > 0 {
			rc.Fail("C18", "deadlock", "health API calls deadlocked: %v", dl)
			return
		}
		rc.Abort("tasks did not finish (%s): %v", why, rc.Sim.Live())
		return
	}
	if len(rc.Sim.Panics) > 0 {
		rc.Fail("C18", "panic", "panic in the health API: %s", rc.Sim.Panics[0].Value)
		return
	}
	overlap := false
	var ops []porcupine.Operation
	for _, r := range lg.recs {
		ops = append(ops, porcupine.Operation{ClientId: r.Client % 50, Input: r.Op, Call: r.Call, Output: r.Out, Return: r.Ret})
		if r.Op.Kind != "get" && r.Op.Kind != "head" && r.Op.Kind != "post" {
			continue
		}
		for _, o := range lg.recs {
			if o.Client != r.Client && (o.Op.Kind == "add" || o.Op.Kind == "ready") && o.Call < r.Ret && r.Call < o.Ret {
				overlap = true
			}
		}
		// internal consistency of one response (when a component is itself called "overall" its
		// own status and the verdict share one key: then only the model comparison applies)
		if names[len(names)-1] == health.OverallReady || r.Op.Kind == "head" {
			continue
		}
		allOK := true
		for k, v := range r.Out.Body {
			if k != health.OverallReady && v != health.ComponentReady {
				allOK = false
			}
		}
		overall := r.Out.Body[health.OverallReady]
		if (r.Out.Code == http.StatusOK) != (overall == health.ComponentReady) || (overall == health.ComponentReady) != allOK ||
			(r.Out.Code != http.StatusOK && r.Out.Code != http.StatusServiceUnavailable) {
			rc.Fail("C18", "inconsistent-response", "status %d with body %v: the status code, the overall status and the per-component statuses disagree", r.Out.Code, r.Out.Body)
			return
		}
	}
	rc.R.NonTrivial = rc.Sim.Preempts > 0 && overlap
	if overlap {
		rc.Sim.Count("readyz_during_update")
	}
	res := porcupine.CheckOperationsTimeout(c18Model, ops, 20*time.Second)
	switch res {
	case porcupine.Illegal:
		var hs []string
		for _, r := range lg.recs {
			hs = append(hs, fmt.Sprintf("c%d [%d,%d] %v -> %d %v", r.Client, r.Call, r.Ret, r.Op, r.Out.Code, r.Out.Body))
		}
		rc.Fail("C18", "not-linearizable", "the recorded history of registrations, ready-marks and status requests is not linearizable against the map model:\n%s", strings.Join(hs, "\n"))
	case porcupine.Unknown:
		rc.Sim.Count("porcupine.unknown")
	}
}

type simInstant struct {
	at   time.Duration
	set0 bool
}

//go:norace
func (i *simInstant) set(d time.Duration) { i.at, i.set0 = d, true }

type c18Waiter struct {
	origin      simInstant // when the waiter's task called WaitForReady (its polls are origin + k intervals)
	name        string
	cancel      context.CancelFunc
	startStep   int // -1: before the first step
	cancelStep  int // -1: never
	done        *doneFlag
	startedAt   time.Duration
	cancelledAt time.Duration
	doneAt      time.Duration
	started     bool
	cancelled   bool
}

func scnC18Wait(rc *RunCtx) {
	t := rc.Spec
	h := health.NewHealth()
	model := map[string]bool{}
	names := []string{"a", "b", "c"}
	// initial registrations before waiting
	nInit := t.Choose(3, "ninit")
	for i := 0; i < nInit; i++ {
		h.AddReadiness(names[i])
		model[names[i]] = false
	}
	nsteps := 2 + t.Choose(8, "nsteps")
	// one to three waiters, each with its own context; the first starts before the first step,
	// later ones at a taped step; each may be cancelled at a taped step after its start
	nw := 1 + t.Choose(3, "waiters")
	var ws []*c18Waiter
	for i := 0; i < nw; i++ {
		w := &c18Waiter{name: fmt.Sprintf("waiter%d", i), startStep: -1, cancelStep: -1, done: &doneFlag{}}
		if i > 0 {
			w.startStep = t.Choose(nsteps, "start.at")
		}
		if t.Choose(4, "cancel") == 0 {
			lo := w.startStep
			if lo < 0 {
				lo = 0
			}
			w.cancelStep = lo + t.Choose(nsteps-lo, "cancel.at")
		}
		ws = append(ws, w)
	}
	start := func(w *c18Waiter) {
		ctx, cancel := context.WithCancel(context.Background())
		if t.Choose(3, "cancel.with.cause") == 2 {
			// cancelled the way an error group cancels its context: with a cause of its own; what
			// the waiter is owed is still the context's error
			cctx, cancelCause := context.WithCancelCause(context.Background())
			ctx, cancel = cctx, func() { cancelCause(errors.New("a worker failed")) }
			rc.Sim.Count("c18.cancel_with_cause")
		}
		rc.Cleanup(cancel)
		w.cancel, w.started, w.startedAt = cancel, true, rc.SimNow()
		rc.Sim.Spawn(w.name, func() {
			w.origin.set(rc.SimNow())
			ch := h.WaitForReady(ctx)
			err, _ := simrt.ChanRecv2(ch, "waiter.recv")
			w.done.set(err)
		})
	}
	start(ws[0])
	rc.Sim.Policy = simrt.PolicyRunToBlock
	modelReady := func() bool {
		for _, v := range model {
			if !v {
				return false
			}
		}
		return true
	}
	type phase struct {
		from, to time.Duration
		ready    bool
	}
	var phases []phase
	notReadySeen := false
	var desc []string
	allDone := func() bool {
		for _, w := range ws {
			if !w.started || !w.done.v {
				return false
			}
		}
		return true
	}
	note := func() {
		for _, w := range ws {
			if w.started && w.done.v && w.doneAt == 0 {
				w.doneAt = rc.SimNow()
			}
		}
	}
	for i := 0; i < nsteps && !allDone(); i++ {
		for _, w := range ws {
			if w.startStep == i && !w.started {
				start(w)
				desc = append(desc, "start("+w.name+")")
			}
		}
		for _, w := range ws {
			if w.cancelStep == i && w.started && !w.cancelled {
				w.cancel()
				w.cancelled, w.cancelledAt = true, rc.SimNow()
				desc = append(desc, "cancel("+w.name+")")
				rc.Sim.Count("ctx.cancel")
			}
		}
		n := names[t.Choose(len(names), "name")]
		if t.Choose(2, "op") == 0 || !hasKey(model, n) {
			h.AddReadiness(n)
			model[n] = false
			desc = append(desc, "add("+n+")")
		} else {
			h.OnReady(n)
			model[n] = true
			desc = append(desc, "ready("+n+")")
		}
		ready := modelReady()
		if !ready {
			notReadySeen = true
		}
		from := rc.SimNow()
		d := time.Duration(100*(1+t.Choose(12, "advance"))) * time.Millisecond
		tick := 100 * time.Millisecond
		if long := t.Choose(12, "advance.long"); long >= 10 {
			// a component that takes minutes (or an hour) to come up: hundreds of polls in one phase
			d, tick = []time.Duration{6 * time.Minute, time.Hour}[long-10], 500*time.Millisecond
			rc.Sim.Count("c18.long_phase")
		}
		desc = append(desc, fmt.Sprintf("advance(%v)", d))
		for el := time.Duration(0); el < d && !allDone(); el += tick {
			time.Sleep(tick)
			rc.Sim.RunUntil(allDone, 5000)
			note()
		}
		phases = append(phases, phase{from, rc.SimNow(), ready})
	}
	end := rc.SimNow()
	rc.CaseKey(strings.Join(desc, ","), nInit)
	rc.R.NonTrivial = notReadySeen
	var wsum []map[string]any
	for _, w := range ws {
		wsum = append(wsum, map[string]any{"name": w.name, "started": w.started, "cancelled": w.cancelled, "completed": w.done.v, "error": fmt.Sprint(w.done.err), "completed_at_ms": w.doneAt.Milliseconds()})
	}
	rc.R.Sample = map[string]any{"initial_registrations": nInit, "steps": desc, "waiters": wsum}
	if len(ws) > 1 {
		rc.Sim.Count("wait.multiple-waiters")
	}
	interval := health.DefaultReadyCheckInterval
	for _, w := range ws {
		if !w.started {
			continue
		}
		if !w.done.v {
			if w.cancelled && end-w.cancelledAt >= 100*time.Millisecond {
				rc.Fail("C18", "wait-ignores-cancellation", "%s: its context was cancelled at %v but WaitForReady had yielded nothing by %v (steps: %v)", w.name, w.cancelledAt, end, desc)
				return
			}
			// bounded liveness: ready without interruption for three polling intervals
			var run time.Duration
			for _, p := range phases {
				if p.to <= w.startedAt || !p.ready {
					run = 0
					continue
				}
				f := p.from
				if f < w.startedAt {
					f = w.startedAt
				}
				run += p.to - f
				if run >= 3*interval {
					rc.Fail("C18", "wait-never-completes", "%s: every registered component was ready for %v (polling interval %v) but WaitForReady did not complete (steps: %v)", w.name, run, interval, desc)
					return
				}
			}
			continue
		}
		if w.done.err != nil {
			if !w.cancelled || w.done.err != context.Canceled {
				rc.Fail("C18", "wait-error", "%s: WaitForReady yielded %q (context cancelled: %v); a waiter gets an error only when its context was cancelled, and then the context's own error (steps: %v)", w.name, w.done.err, w.cancelled, desc)
				return
			}
			continue
		}
		// completed without error although its context had been cancelled before: legitimate only if
		// everything was ready at the cancellation or became ready within one polling interval of it
		// (a waiter that finds both may report either); a waiter that outlives its cancellation by
		// more than that and then reports success ignored the cancellation
		if w.cancelled && w.doneAt >= w.cancelledAt {
			readySoon := false
			for _, p := range phases {
				if p.ready && p.to >= w.cancelledAt && p.from <= w.cancelledAt+interval && p.from <= w.doneAt {
					readySoon = true
				}
			}
			if !readySoon {
				rc.Fail("C18", "cancelled-wait-completed-without-error", "%s: its context was cancelled at %v while a component was not ready, none became ready within %v of that, yet WaitForReady completed at %v without the context's error (steps: %v)", w.name, w.cancelledAt, interval, w.doneAt, desc)
				return
			}
		}
		// completed without error: the model must have been ready at that instant
		for _, p := range phases {
			if w.doneAt > p.from && w.doneAt <= p.to {
				if !p.ready {
					rc.Fail("C18", "wait-completed-while-not-ready", "%s: WaitForReady completed at %v while a registered component was not ready (steps: %v)", w.name, w.doneAt, desc)
					return
				}
				break
			}
		}
	}
}

func hasKey(m map[string]bool, k string) bool { _, ok := m[k]; return ok }
