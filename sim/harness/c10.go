package verifsim

import (
	"encoding/json"
	"fmt"
	"strings"
	"time"

	"github.com/metal-toolbox/audito-maldito/internal/simrt"
)

// C10: the output is a stream of whole JSON events in causal order. The assembled daemon
// (L3) writes to SimDisk, where one Write call is one atomic append (O_APPEND); the
// scheduler preempts between every write and hand-off and inside SimDisk.Write.

func init() {
	register(&propDef{
		ID: "C10", Level: "exploration",
		Families: []family{
			{Name: "l3-bursts", Fn: scnC10(3), Weight: 9},
			{Name: "l2-handoff-orders", Fn: scnC10(2), Weight: 3},
			{Name: "l3-stalled-output", Fn: scnC10gen(3, true), Weight: 1},
		},
		Rule: "the daemon starts on an events output that already holds 0-3 earlier events (restart); 2-6 sessions with 0-6 actions each delivered as bursts on both pipes at once (everything within 0-300 ms of simulated time, taped chunking / short reads / buffer sizes), " +
			"schedule policies random / PCT / biased / run-to-block with a scheduling point inside every output write and between every write and hand-off; monitor per write call: exactly one JSON event + newline, " +
			"no event written twice, every UserAction preceded by the UserLogin with the same subjects.pid; afterwards the file content (O_APPEND / no-O_APPEND semantics of the simulated file) keeps the earlier events and consists of whole JSON lines; thorough tier additionally under the race detector; " +
			"in an eighth of the l3-bursts runs one output write fails once (the daemon stops; order and framing of what was and still is written are judged); l3-stalled-output: one output write (taped, among the first) stalls for 1-9 simulated seconds (slow or hung disk) while a session that held 30-540 events gets its login and another session is busy; same monitors; " +
			"non-trivial = both pipelines wrote and at least one preemption happened; distinct = distinct (history hash, schedule hash)",
		Quick: 8000, Thorough: 250000,
		Race: true, RaceQuick: 96, RaceThorough: 8000,
	})
}

func scnC10(level int) scenarioFn { return scnC10gen(level, false) }

// genStalledOutputHistory: a busy correlated session next to a session whose many records are
// held until its login arrives; everything within a few hundred simulated milliseconds.
func genStalledOutputHistory(t *simrt.Tape) *History {
	k := NewKaudit()
	w := &L1World{}
	a := &Session{Ses: "960", PID: 6100 + t.Choose(50, "pidA"), UID: 1000, Kind: "ssh"}
	a.Login = GenLogin(t, a.PID, 1)
	b := &Session{Ses: "961", PID: 6200 + t.Choose(50, "pidB"), UID: 1001, Kind: "ssh"}
	b.Login = GenLogin(t, b.PID, 2)
	w.Sessions = []*Session{a, b}
	ops := []HOp{{Kind: "login", S: 0}}
	a.Events = append(a.Events, k.Login(a.Ses, a.PID, a.UID))
	ops = append(ops, HOp{Kind: "event", S: 0, E: 0})
	held := (1 << (5 + t.Choose(5, "held.log2"))) + t.Choose(30, "held.delta")
	b.Events = append(b.Events, k.Login(b.Ses, b.PID, b.UID))
	ops = append(ops, HOp{Kind: "event", S: 1, E: 0})
	for i := 1; i < held; i++ {
		if t.Choose(8, "a.act") == 0 {
			a.Events = append(a.Events, GenAction(t, k, a.Ses, a.PID, a.UID))
			ops = append(ops, HOp{Kind: "event", S: 0, E: len(a.Events) - 1})
		}
		b.Events = append(b.Events, k.UserMsg("USER_START", b.Ses, b.PID, b.UID, true, 0))
		ops = append(ops, HOp{Kind: "event", S: 1, E: i})
	}
	ops = append(ops, HOp{Kind: "sleep", Ms: 50 + t.Choose(200, "gap")}, HOp{Kind: "login", S: 1})
	for i, n := 0, 1+t.Choose(4, "more"); i < n; i++ {
		a.Events = append(a.Events, GenAction(t, k, a.Ses, a.PID, a.UID))
		ops = append(ops, HOp{Kind: "event", S: 0, E: len(a.Events) - 1})
	}
	return &History{W: w, Ops: ops}
}

func scnC10gen(level int, stalled bool) scenarioFn {
	return func(rc *RunCtx) {
		c := histCfg{MaxSessions: 5, MaxActions: 6, MaxTotalMs: 300, SplitSweep: -1, AfterEnd: true}
		var h *History
		var stallAt int
		var stallFor time.Duration
		if stalled {
			h = genStalledOutputHistory(rc.Spec)
			stallAt = 1 + rc.Spec.Choose(6, "stall.at")
			if rc.Spec.Choose(3, "stall.late") == 2 {
				stallAt = 7 + rc.Spec.Choose(60, "stall.at.late") // somewhere in the burst
			}
			stallFor = time.Duration(1000+rc.Spec.Choose(8000, "stall.ms")) * time.Millisecond
		} else {
			h = genHistory(rc.Spec, c)
		}
		if err := h.W.Prepare(); err != nil {
			rc.Abort("world: %v", err)
			return
		}
		sshdTL, auditTL := buildTimelines(h, 0)
		p := newPipeline(rc, level, h, sshdTL, auditTL)
		if level == 3 {
			p.Knobs["auditLogChanBufSize"] = []int{10000, 1, 2, 8}[rc.Spec.Choose(4, "knob.chan")]
			p.Knobs["bufio"] = []int{4096, 16, 64}[rc.Spec.Choose(3, "knob.bufio")]
		}
		// the daemon is restarted on an output file that already holds events of an earlier run
		var earlier []byte
		if level == 3 {
			for i, n := 0, rc.Spec.Choose(4, "earlier.events"); i < n; i++ {
				earlier = append(earlier, []byte(fmt.Sprintf(`{"metadata":{"auditId":"earlier-%d"},"type":"UserLogin","loggedAt":"1999-12-31T23:00:0%dZ","source":{"type":"IP","value":"192.0.2.%d"},"outcome":"succeeded","subjects":{"loggedAs":"earlier","pid":"%d"},"component":"sshd"}`+"\n", i, i, i, 100+i))...)
			}
			p.InitialOutput = earlier
		}
		pol := pipelinePolicy(rc)
		seenKey := map[string]int{}
		loginSeq := map[string]int{} // subjects.pid -> write seq of its UserLogin
		p.OnNew = func(axis int, evs []*OutEvent) {
			for _, e := range evs {
				var key string
				switch e.Type {
				case "UserLogin":
					key = fmt.Sprintf("L/%s/%s/%s", e.Subjects["pid"], e.LoggedAt.Format(time.RFC3339Nano), e.AuditID)
					if _, ok := loginSeq[e.Subjects["pid"]]; !ok {
						loginSeq[e.Subjects["pid"]] = e.Seq
					}
				case "UserAction":
					key = fmt.Sprintf("A/%s/%s", e.AuditID, e.LoggedAt.Format(time.RFC3339Nano))
					ls, ok := loginSeq[e.Subjects["pid"]]
					if !ok || ls > e.Seq {
						rc.Fail("C10", "action-before-login", "UserAction (write #%d, session %s) carries the identity of the login with pid %s whose UserLogin event has not been written yet", e.Seq, e.AuditID, e.Subjects["pid"])
						return
					}
				default:
					rc.Fail("C10", "unknown-event-type", "write #%d has type %q", e.Seq, e.Type)
					return
				}
				if prev, dup := seenKey[key]; dup {
					rc.Fail("C10", "event-written-twice", "the same %s event was written twice (writes #%d and #%d)", e.Type, prev, e.Seq)
					return
				}
				seenKey[key] = e.Seq
			}
			if len(p.BadWrites) > 0 {
				rc.Fail("C10", "torn-or-merged-write", "an output write is not exactly one JSON event followed by a newline: %s", p.BadWrites[0])
			}
		}
		if err := p.Start(); err != nil {
			rc.Abort("start: %v", err)
			return
		}
		if stalled && p.disk != nil {
			p.disk.StallAt, p.disk.StallFor = stallAt, stallFor
		}
		// one output write may fail once (a full disk for an instant): the daemon stops (C08), and
		// what it has written and still writes while stopping keeps the order and the framing
		// (not under the race detector: the error latch of the shared JSON encoder is written
		// without synchronisation when a write fails, which the detector reports although nothing
		// C10 speaks about is affected and the daemon stops at that failure anyway)
		failOnce := level == 3 && !stalled && !simrt.RaceBuild && rc.Spec.Choose(8, "write.fail.once") == 7
		if failOnce {
			p.disk.FailAt, p.disk.FailAll = 1+rc.Spec.Choose(12, "write.fail.at"), false
		}
		ok := p.Run(p.worldDone, 6*time.Second+2*stallFor, 100*time.Millisecond, 2000000)
		if ok && !rc.Failed() {
			ok = p.Run(nil, rc.SimNow()+3*time.Second, 100*time.Millisecond, 2000000)
		}
		rc.CaseKey(h.caseKey(), level)
		rc.State(h.stateKey(p.Out))
		nl, na := 0, 0
		for _, e := range p.Out {
			if e.Type == "UserLogin" {
				nl++
			} else {
				na++
			}
		}
		rc.R.NonTrivial = nl > 0 && na > 0 && rc.Sim.Preempts > 0
		rc.R.Sample = sampleOf(h, map[string]any{"level": level, "policy": pol, "userlogins": nl, "useractions": na, "knobs": p.Knobs})
		if !ok {
			rc.Abort("step budget exhausted: %v", rc.Sim.Live())
			return
		}
		if !rc.Failed() && (p.Returned || p.ReadDone) && !(failOnce && p.disk.Calls >= p.disk.FailAt) {
			rc.Abort("system under test stopped during a fault-free history: %v %v", p.RetErr, p.ReadErr)
		}
		if level == 3 && !rc.Failed() {
			// the file as a reader sees it afterwards: earlier events intact, every line one event
			content := p.disk.Content()
			if !strings.HasPrefix(string(content), string(earlier)) {
				rc.Fail("C10", "earlier-events-destroyed", "the events output held %d bytes of earlier events when the daemon started; they are no longer intact: file now starts with %q", len(earlier), truncate(string(content), 200))
			} else {
				for i, ln := range strings.Split(strings.TrimSuffix(string(content), "\n"), "\n") {
					if len(content) == 0 {
						break
					}
					if !json.Valid([]byte(ln)) {
						rc.Fail("C10", "torn-line-in-file", "line %d of the events output is not one complete JSON event: %q", i+1, truncate(ln, 200))
						break
					}
				}
			}
		}
		if level == 3 && !rc.Failed() && len(p.BadWrites) > 0 {
			rc.Fail("C10", "torn-or-merged-write", "an output write is not exactly one JSON event followed by a newline: %s", p.BadWrites[0])
		}
		p.Shutdown()
		rc.Cleanup(func() { p.teardown() })
	}
}
