package verifsim

import (
	"fmt"
	"sort"
	"strings"
	"time"

	"github.com/metal-toolbox/audito-maldito/internal/simrt"
)

// ------------------------------------------------------------------------------
// L1 histories: sequences of deliveries (audit events, logins, cleanup calls, clock
// advances) to the real tracker, with ground truth. Shared by C01, C02, C04, C09, C16.
// ------------------------------------------------------------------------------

// HOp is one step of a history.
type HOp struct {
	Kind  string  `json:"op"` // event | login | cleanup | sleep | noise
	S     int     `json:"s,omitempty"`
	E     int     `json:"e,omitempty"`
	CutMs int     `json:"cut_ms,omitempty"` // cleanup: cut-off = now + CutMs
	Ms    int     `json:"ms,omitempty"`     // sleep
	Noise *KEvent `json:"-"`
}

func (o HOp) String() string {
	switch o.Kind {
	case "login":
		return fmt.Sprintf("login(s%d)", o.S)
	case "event":
		return fmt.Sprintf("ev(s%d.%d)", o.S, o.E)
	case "cleanup":
		return fmt.Sprintf("cleanup(now%+dms)", o.CutMs)
	case "sleep":
		return fmt.Sprintf("sleep(%dms)", o.Ms)
	case "noise":
		return fmt.Sprintf("noise(%s ses=%q)", o.Noise.Type, o.Noise.Ses)
	}
	return o.Kind
}

// History is a generated world plus the delivery order.
type History struct {
	W   *L1World
	Ops []HOp
	// ground truth per session (filled while executing)
	loginAt    map[int]int // session -> op index at which its login was delivered
	loginIdent map[int]string
	evAt       map[string]int // "s.e" -> op index of delivery
	evTime     map[string]time.Time
	loginTime  map[int]time.Time
	axisIsOps  bool
}

func (h *History) Render() []string {
	var out []string
	for _, o := range h.Ops {
		out = append(out, o.String())
	}
	return out
}

type histCfg struct {
	MaxSessions int
	MaxActions  int
	Noise       bool // uncorrelated traffic: no-ses, unset-ses, orphan sessions, cron sessions, logins without session
	Cleanup     bool // cleanup(now-60s) calls at random positions (inside the window)
	AfterEnd    bool // stray events after CRED_DISP
	SplitSweep  int  // >=0: systematic login position for session 0
	MaxTotalMs  int
}

// mergeOrder interleaves the sessions' event lists (per-session order preserved).
func mergeOrder(t *simrt.Tape, lens []int) []int {
	var out []int
	rem := append([]int{}, lens...)
	tot := 0
	for _, n := range lens {
		tot += n
	}
	for tot > 0 {
		var cand []int
		for i, r := range rem {
			if r > 0 {
				cand = append(cand, i)
			}
		}
		c := cand[t.Choose(len(cand), "merge")]
		out = append(out, c)
		rem[c]--
		tot--
	}
	return out
}

// genHistory draws a multi-session history in which PIDs and session ids are not reused.
func genHistory(t *simrt.Tape, cfg histCfg) *History {
	var k *Kaudit
	switch t.Choose(4, "kernel.clock") {
	case 1:
		k = NewKauditAt(time.Now().Add(-time.Hour)) // a backlog: kernel timestamps an hour behind the daemon's clock
	case 2:
		k = NewKauditAt(time.Now()) // in step with the daemon's clock
	default:
		k = NewKaudit() // unrelated epoch (ahead of the daemon's clock)
	}
	if t.Choose(8, "kernel.serial") == 7 {
		// the kernel's 32-bit audit serial number wraps around inside the history
		k.NearSerialWrap(t.Choose(12, "kernel.serial.before"))
	}
	w := &L1World{}
	n := 1 + t.Choose(cfg.MaxSessions, "nsessions")
	for si := 0; si < n; si++ {
		pid := 3000 + si*31 + t.Choose(7, "pid")
		ses := fmt.Sprint(700 + si*3 + t.Choose(3, "ses"))
		kind := "ssh"
		if cfg.Noise {
			switch t.Choose(9, "kind") {
			case 0:
				kind = "cron" // LOGIN record, no ssh login ever
			case 1:
				kind = "orphan" // first record seen is not LOGIN
			case 2:
				kind = "login-only" // ssh login whose audit session never shows up
			case 3:
				kind = "orphan-with-login" // no LOGIN record ever seen, but an ssh login with the PID of its records arrives
			case 4:
				kind = "unset-with-login" // LOGIN record carrying the unset session for a PID that also logs in via ssh
				ses = "4294967295"
			case 5:
				kind = "nested" // a process inside an earlier ssh session gets a session of its own (su, sudo -i): LOGIN record with old-ses, no ssh login
			}
		}
		if si > 0 && t.Choose(6, "pid.alias") == 5 {
			// PIDs that agree in their low byte (4000 and 4256, 4768): still different processes
			// (also 65536 and 2^21 apart: equal in their low 16 / 21 bits)
			pid = w.Sessions[t.Choose(si, "pid.alias.of")].PID + []int{256, 512, 768, 65536, 131072, 1 << 21}[t.Choose(6, "pid.alias.k")]
			for clash := true; clash; {
				clash = false
				for _, o := range w.Sessions {
					if o.PID == pid {
						pid += 256
						clash = true
					}
				}
			}
		}
		if ses != "4294967295" && t.Choose(9, "ses.zero") == 8 {
			// the kernel's 32-bit session counter has wrapped: 0 is an ordinary session id
			zero := false
			for _, o := range w.Sessions {
				zero = zero || o.Ses == "0"
			}
			if !zero {
				ses = "0"
			}
		}
		if ses != "4294967295" && ses != "0" && t.Choose(7, "ses.eq.pid") == 6 {
			// the audit session id is just a counter: it may coincide with a PID (its own sshd's or
			// that of another session)
			cand := pid
			if si > 0 && t.Choose(2, "ses.eq.pid.other") == 1 {
				cand = w.Sessions[t.Choose(si, "ses.eq.pid.of")].PID
			}
			clash := false
			for _, o := range w.Sessions {
				if o.Ses == fmt.Sprint(cand) {
					clash = true
				}
			}
			if !clash {
				ses = fmt.Sprint(cand)
			}
		}
		s := &Session{Ses: ses, PID: pid, UID: 1000 + si, Kind: kind}
		if kind == "ssh" || kind == "login-only" || kind == "orphan-with-login" || kind == "unset-with-login" {
			s.Login = GenLogin(t, pid, si+1)
			if si > 0 && t.Choose(5, "field.eq.other.pid") == 4 {
				// a number inside the login line happens to equal the PID of another sshd process:
				// the client's source port, or a bracketed number in the certificate's key id
				other := w.Sessions[t.Choose(si, "field.eq.of")].PID
				if s.Login.Form == "cert" {
					s.Login.KeyID = fmt.Sprintf("ci-job[%d]", other)
				} else if other < 65536 {
					s.Login.Port = other
				}
			}
			if s.Login.Form == "cert" && t.Choose(4, "cert.reissued") == 3 {
				// a re-issued (short-lived) certificate for the same key, signed by the same CA: same
				// fingerprints as an earlier login, another key id and serial
				for _, o := range w.Sessions {
					if o.Login != nil && o.Login.Form == "cert" {
						s.Login.Alg, s.Login.FP, s.Login.CAFP = o.Login.Alg, o.Login.FP, o.Login.CAFP
						break
					}
				}
			}
		}
		// events are generated later in merged order so that kernel sequence numbers and
		// timestamps increase along the audit stream
		w.Sessions = append(w.Sessions, s)
	}
	// plan the number of events per session
	plan := make([]int, n)
	hasEnd := make([]bool, n)
	nAfter := make([]int, n)
	for si, s := range w.Sessions {
		if s.Kind == "login-only" {
			continue
		}
		plan[si] = 1 + t.Choose(cfg.MaxActions+1, "nact") // LOGIN (or first record) + actions
		hasEnd[si] = t.Choose(4, "hasend") != 0
		if hasEnd[si] {
			plan[si]++
			if cfg.AfterEnd {
				nAfter[si] = t.Choose(3, "nafter")
				plan[si] += nAfter[si]
			}
		}
	}
	order := mergeOrder(t, plan)
	h := &History{W: w}
	emitted := make([]int, n)
	var stream []HOp
	for _, si := range order {
		s := w.Sessions[si]
		i := emitted[si]
		emitted[si]++
		var e *KEvent
		endIdx := plan[si] - 1 - nAfter[si]
		switch {
		case i == 0 && s.Kind == "nested":
			parent := -1
			for sj := 0; sj < si; sj++ {
				if w.Sessions[sj].Kind == "ssh" {
					parent = sj
				}
			}
			if parent >= 0 {
				e = k.LoginNested(s.Ses, w.Sessions[parent].Ses, s.PID, s.UID, w.Sessions[parent].UID)
			} else {
				e = k.Login(s.Ses, s.PID, s.UID)
			}
		case i == 0 && s.Kind != "orphan" && s.Kind != "orphan-with-login":
			e = k.Login(s.Ses, s.PID, s.UID)
		case s.Kind == "orphan-with-login" && i == 0:
			// the session's USER_LOGIN record (same PID as the sshd process) without any LOGIN record before it
			e = k.UserMsg("USER_LOGIN", s.Ses, s.PID, s.UID, true, 0)
		case hasEnd[si] && i == endIdx:
			e = k.UserMsg("CRED_DISP", s.Ses, s.PID, s.UID, true, 0)
		default:
			e = GenAction(t, k, s.Ses, s.PID, s.UID)
		}
		s.Events = append(s.Events, e)
		stream = append(stream, HOp{Kind: "event", S: si, E: i})
		if t.Choose(12, "clock.stepback") == 0 {
			k.StepBack(10000 + int64(t.Choose(5000, "stepback.ms")))
		}
		if cfg.Noise && t.Choose(5, "noise") == 0 {
			ses := ""
			if t.Choose(2, "noise.ses") == 1 {
				ses = "4294967295"
			}
			ne := GenAction(t, k, ses, 9000+t.Choose(100, "npid"), 0)
			if t.Choose(4, "noise.login") == 0 {
				// a LOGIN-typed record for the unset session
				ne = k.Login("4294967295", 9000+t.Choose(100, "npid"), 0)
			}
			stream = append(stream, HOp{Kind: "noise", Noise: ne})
		}
	}
	// insert logins
	for si, s := range w.Sessions {
		if s.Login == nil {
			continue
		}
		// positions of this session's events in the stream
		var pos []int
		for i, o := range stream {
			if o.Kind == "event" && o.S == si {
				pos = append(pos, i)
			}
		}
		var at int
		if len(pos) == 0 {
			at = t.Choose(len(stream)+1, "loginpos")
		} else {
			// split point k in [0,len(pos)]: login goes right before the k-th event of
			// the session (k == len(pos): after the last one, anywhere up to the end)
			var kk int
			if si == 0 && cfg.SplitSweep >= 0 {
				kk = cfg.SplitSweep % (len(pos) + 1)
			} else {
				kk = t.Choose(len(pos)+1, "split")
			}
			if kk < len(pos) {
				lo := 0
				if kk > 0 {
					lo = pos[kk-1] + 1
				}
				at = lo + t.Choose(pos[kk]-lo+1, "loginpos")
			} else {
				lo := pos[len(pos)-1] + 1
				at = lo + t.Choose(len(stream)-lo+1, "loginpos")
			}
		}
		stream = append(stream[:at], append([]HOp{{Kind: "login", S: si}}, stream[at:]...)...)
	}
	// sleeps and cleanups
	budget := cfg.MaxTotalMs
	var ops []HOp
	for _, o := range stream {
		if budget > 0 && t.Choose(3, "sleep?") == 0 {
			ms := []int{1, 50, 500, 2000, 5000}[t.Choose(5, "sleepms")]
			if ms > budget {
				ms = budget
			}
			budget -= ms
			ops = append(ops, HOp{Kind: "sleep", Ms: ms})
		}
		if cfg.Cleanup && t.Choose(6, "cleanup?") == 0 {
			ops = append(ops, HOp{Kind: "cleanup", CutMs: -60000})
		}
		ops = append(ops, o)
	}
	h.Ops = ops
	return h
}

// execHistory runs the history against a fresh real tracker, inline, calling after(i)
// after every op (online monitors).
func (h *History) exec(rc *RunCtx, rec *Recorder, after func(i int)) []string {
	tr := newTracker(rec)
	h.axisIsOps = true
	h.loginAt = map[int]int{}
	h.loginIdent = map[int]string{}
	h.evAt = map[string]int{}
	h.evTime = map[string]time.Time{}
	h.loginTime = map[int]time.Time{}
	var errs []string
	for i, o := range h.Ops {
		var err error
		switch o.Kind {
		case "event":
			h.evAt[fmt.Sprintf("%d.%d", o.S, o.E)] = i
			h.evTime[fmt.Sprintf("%d.%d", o.S, o.E)] = time.Now()
			err = tr.AuditdEvent(h.W.evs[o.S][o.E])
		case "noise":
			ce, cerr := o.Noise.Coalesce()
			if cerr != nil {
				rc.Abort("noise event: %v", cerr)
				return errs
			}
			err = tr.AuditdEvent(ce)
		case "login":
			rul := MakeRUL(h.W.Sessions[o.S].Login, time.Now())
			h.loginAt[o.S] = i
			h.loginTime[o.S] = time.Now()
			h.loginIdent[o.S] = identityOfEvent(rul.Source)
			err = tr.RemoteLogin(rul)
		case "cleanup":
			cut := time.Now().Add(time.Duration(o.CutMs) * time.Millisecond)
			tr.DeleteUsersWithoutLoginsBefore(cut)
			tr.DeleteRemoteUserLoginsBefore(cut)
			rc.Sim.Count("cleanup.calls")
		case "sleep":
			time.Sleep(time.Duration(o.Ms) * time.Millisecond)
		}
		if err != nil {
			errs = append(errs, fmt.Sprintf("op %d %s: %v", i, o, err))
		}
		if after != nil {
			after(i)
		}
	}
	return errs
}

// opDesc renders a position on the delivery axis (op index at L1, simulator event count above).
func (h *History) opDesc(i int) string {
	if h.axisIsOps && i >= 0 && i < len(h.Ops) {
		return fmt.Sprintf("op %d %s", i, h.Ops[i])
	}
	return fmt.Sprintf("simulator event %d", i)
}

// sessionBySes finds the session index with audit session id ses (ids are unique).
func (h *History) sessionBySes(ses string) int {
	for i, s := range h.W.Sessions {
		if s.Ses == ses {
			return i
		}
	}
	return -1
}

// loginRecordIdx is the index of the LOGIN record within a session's events, or -1.
func loginRecordIdx(s *Session) int {
	for i, e := range s.Events {
		if e.Type == "LOGIN" {
			return i
		}
	}
	return -1
}

func credDispIdx(s *Session) int {
	for i, e := range s.Events {
		if e.Type == "CRED_DISP" {
			return i
		}
	}
	return -1
}

// eventIndexOf maps an emitted UserAction to (session, event index) through its
// timestamp (unique per kernel event).
func (h *History) eventIndexOf(o *OutEvent) (int, int) {
	ke, ok := h.W.bySeq[o.LoggedAt.UnixMilli()]
	if !ok {
		return -1, -1
	}
	si := h.W.sesOf[o.LoggedAt.UnixMilli()]
	for i, e := range h.W.Sessions[si].Events {
		if e == ke {
			return si, i
		}
	}
	return -1, -1
}

// ---- oracles ----

// checkC01: identity of every UserAction = identity of the login whose PID equals the PID
// in the LOGIN record of the event's session.
func (h *History) checkC01(rc *RunCtx, evs []*OutEvent) {
	for _, e := range evs {
		if e.Type != "UserAction" {
			continue
		}
		si := h.sessionBySes(e.AuditID)
		if si < 0 {
			continue // C04's business
		}
		s := h.W.Sessions[si]
		li := loginRecordIdx(s)
		if li < 0 {
			continue // no LOGIN record: C04
		}
		// the login with the PID of the LOGIN record
		var owner = -1
		for sj, o := range h.W.Sessions {
			if o.Login != nil && o.Login.PID == s.Events[li].PID {
				if _, delivered := h.loginAt[sj]; delivered {
					owner = sj
				}
			}
		}
		if owner < 0 {
			// no login with that PID reached the daemon (that anything was emitted is C04's
			// business); the event must still not carry the identity of some other login
			for sj, id := range h.loginIdent {
				if id == e.Identity() {
					rc.Fail("C01", "wrong-identity", "UserAction #%d of audit session %s (opened by pid %d, for which no login arrived) carries the identity of the login of session s%d (pid %d)",
						e.Seq, e.AuditID, s.Events[li].PID, sj, h.W.Sessions[sj].PID)
					return
				}
			}
			continue
		}
		if e.Identity() != h.loginIdent[owner] {
			whose := "nobody's"
			for sj, id := range h.loginIdent {
				if id == e.Identity() {
					whose = fmt.Sprintf("the login of session s%d (pid %d)", sj, h.W.Sessions[sj].PID)
				}
			}
			rc.Fail("C01", "wrong-identity", "UserAction #%d of audit session %s (opened by pid %d) carries %s instead of the login with pid %d: got %s want %s",
				e.Seq, e.AuditID, s.Events[li].PID, whose, s.Events[li].PID, e.Identity(), h.loginIdent[owner])
			return
		}
	}
}

// checkC02: for every ssh session whose LOGIN record and login were both delivered, the
// emitted events of the session are exactly LOGIN..CRED_DISP (or ..last delivered if the
// session did not end), once each, in delivery order.
func (h *History) checkC02(rc *RunCtx, evs []*OutEvent) {
	for si, s := range h.W.Sessions {
		if s.Kind != "ssh" {
			continue
		}
		if _, ok := h.loginAt[si]; !ok {
			continue
		}
		li := loginRecordIdx(s)
		if li != 0 {
			continue
		}
		end := credDispIdx(s)
		last := len(s.Events) - 1
		if end >= 0 {
			last = end
		}
		var want []int
		for i := 0; i <= last; i++ {
			if _, delivered := h.evAt[fmt.Sprintf("%d.%d", si, i)]; delivered {
				want = append(want, i)
			}
		}
		var got []int
		for _, e := range evs {
			if e.Type != "UserAction" || e.AuditID != s.Ses {
				continue
			}
			sj, ei := h.eventIndexOf(e)
			if sj != si {
				rc.Fail("C02", "foreign-event", "UserAction #%d with auditId %s does not correspond to an event of that session", e.Seq, s.Ses)
				return
			}
			if ei > last {
				continue // after credential disposal: unspecified
			}
			got = append(got, ei)
		}
		if fmt.Sprint(got) != fmt.Sprint(want) {
			class := "lost"
			switch {
			case len(got) > len(want):
				class = "duplicated"
			case len(got) == len(want):
				class = "reordered"
			}
			rc.Fail("C02", class, "session s%d (ses %s): emitted event indices %v, expected %v (login delivered at op %d)", si, s.Ses, got, want, h.loginAt[si])
			return
		}
	}
}

// monitorC04 is evaluated after every op on the events written by that op.
func (h *History) monitorC04(rc *RunCtx, opIdx int, newEvs []*OutEvent) {
	for _, e := range newEvs {
		if e.Type != "UserAction" {
			continue
		}
		if e.AuditID == "" || e.AuditID == "unset" || e.AuditID == "4294967295" {
			rc.Fail("C04", "no-session", "UserAction #%d written for an event without audit session (auditId %q) at %s", e.Seq, e.AuditID, h.opDesc(opIdx))
			return
		}
		si := h.sessionBySes(e.AuditID)
		if si < 0 {
			rc.Fail("C04", "unknown-session", "UserAction #%d written for unknown audit session %q", e.Seq, e.AuditID)
			return
		}
		s := h.W.Sessions[si]
		li := loginRecordIdx(s)
		if li < 0 {
			rc.Fail("C04", "no-login-record", "UserAction #%d written for session %s whose LOGIN record was never seen (%s)", e.Seq, s.Ses, h.opDesc(opIdx))
			return
		}
		if at, ok := h.evAt[fmt.Sprintf("%d.%d", si, li)]; !ok || at > opIdx {
			rc.Fail("C04", "before-login-record", "UserAction #%d written for session %s before its LOGIN record was delivered", e.Seq, s.Ses)
			return
		}
		owner := -1
		for sj, o := range h.W.Sessions {
			if o.Login != nil && o.Login.PID == s.Events[li].PID {
				if at, ok := h.loginAt[sj]; ok && at <= opIdx {
					owner = sj
				}
			}
		}
		if owner < 0 {
			rc.Fail("C04", "no-ssh-login", "UserAction #%d written for session %s (kind %s) although no ssh login with pid %d has arrived (%s)",
				e.Seq, s.Ses, s.Kind, s.Events[li].PID, h.opDesc(opIdx))
			return
		}
		if e.Identity() != h.loginIdent[owner] {
			rc.Fail("C04", "foreign-identity", "UserAction #%d of session %s carries an identity that is not its own login's", e.Seq, s.Ses)
			return
		}
	}
}

func (h *History) nontrivialMulti() bool {
	// >= 2 ssh sessions and >= 1 login arriving after its LOGIN record
	n, late := 0, false
	for si, s := range h.W.Sessions {
		if s.Kind != "ssh" {
			continue
		}
		n++
		if la, ok := h.loginAt[si]; ok {
			if ea, ok2 := h.evAt[fmt.Sprintf("%d.0", si)]; ok2 && la > ea {
				late = true
			}
		}
	}
	return n >= 2 && late
}

func (h *History) caseKey() string {
	var b strings.Builder
	for _, s := range h.W.Sessions {
		fmt.Fprintf(&b, "%s/%d/%s/%d;", s.Ses, s.PID, s.Kind, len(s.Events))
		for _, e := range s.Events {
			b.WriteString(e.Type[:2])
		}
	}
	b.WriteString(strings.Join(h.Render(), ","))
	return hashStr(b.String())
}

func sampleOf(h *History, extra map[string]any) map[string]any {
	m := map[string]any{"history": h.Render()}
	var ss []string
	for i, s := range h.W.Sessions {
		var ts []string
		for _, e := range s.Events {
			ts = append(ts, e.Type)
		}
		ss = append(ss, fmt.Sprintf("s%d: ses=%s pid=%d kind=%s events=%s", i, s.Ses, s.PID, s.Kind, strings.Join(ts, ",")))
	}
	m["sessions"] = ss
	for k, v := range extra {
		m[k] = v
	}
	return m
}

// trackerStateKey abstracts the run for the "distinct states" measure: per session
// (bound?, #emitted, ended?).
func (h *History) stateKey(evs []*OutEvent) string {
	cnt := map[string]int{}
	for _, e := range evs {
		cnt[e.AuditID]++
	}
	var ks []string
	for _, s := range h.W.Sessions {
		ks = append(ks, fmt.Sprintf("%s:%d/%d", s.Kind, cnt[s.Ses], len(s.Events)))
	}
	sort.Strings(ks)
	return hashStr(strings.Join(ks, ";"))
}

// ---- scenario: generic multi-session history at L1 (C01, C02, C04) ----

func scnL1History(prop string, cfg histCfg) scenarioFn {
	return func(rc *RunCtx) {
		c := cfg
		if c.SplitSweep == 0 {
			c.SplitSweep = -1
			if rc.Index%2 == 0 {
				c.SplitSweep = rc.Index / 2
			}
		}
		h := genHistory(rc.Spec, c)
		if err := h.W.Prepare(); err != nil {
			rc.Abort("world: %v", err)
			return
		}
		rec := &Recorder{Sim: rc.Sim, NoPoint: true}
		seen := 0
		errs := h.exec(rc, rec, func(i int) {
			if prop == "C04" && !rc.Failed() {
				h.monitorC04(rc, i, rec.Events[seen:])
			}
			seen = len(rec.Events)
		})
		rc.CaseKey(h.caseKey())
		rc.State(h.stateKey(rec.Events))
		rc.R.Sample = sampleOf(h, map[string]any{"emitted": len(rec.Events)})
		if len(errs) > 0 {
			rc.Abort("tracker returned errors in a fault-free history: %v", errs)
			return
		}
		switch prop {
		case "C01":
			h.checkC01(rc, rec.Events)
			rc.R.NonTrivial = h.nontrivialMulti()
		case "C02":
			h.checkC02(rc, rec.Events)
			rc.R.NonTrivial = h.nontrivialMulti() || len(h.W.Sessions) >= 1 && len(rec.Events) >= 2
		case "C04":
			n := 0
			for _, s := range h.W.Sessions {
				if s.Kind != "ssh" {
					n++
				}
			}
			rc.R.NonTrivial = n >= 1 && len(h.W.Sessions) >= 2
		}
	}
}
