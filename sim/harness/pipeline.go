package verifsim

import (
	"context"
	"encoding/json"
	"fmt"
	"os"
	"path/filepath"
	"strings"
	"syscall"
	"time"

	"github.com/metal-toolbox/auditevent"
	"github.com/prometheus/client_golang/prometheus"
	"go.uber.org/zap"

	"github.com/metal-toolbox/audito-maldito/cmd"
	"github.com/metal-toolbox/audito-maldito/internal/common"
	"github.com/metal-toolbox/audito-maldito/internal/health"
	"github.com/metal-toolbox/audito-maldito/internal/metrics"
	"github.com/metal-toolbox/audito-maldito/internal/simrt"
	"github.com/metal-toolbox/audito-maldito/processors/auditd"
	"github.com/metal-toolbox/audito-maldito/processors/sshd"
)

// ------------------------------------------------------------------------------
// Pipeline worlds: the same generated history delivered either to the real processors
// (L2: auditd.Read + sshd processor, harness-owned channels and encoder) or to the
// assembled daemon (L3: cmd.RunNamedPipe on simulated FIFOs and a simulated output file).
// ------------------------------------------------------------------------------

// TLItem is one arrival on one of the two streams.
type TLItem struct {
	AtMs   int
	Kind   string // event | part | noise | login | raw
	S, E   int
	Lo, Hi int // part: records [Lo,Hi) of the event
	Noise  *KEvent
	Raw    string
}

// fifoDir holds two real FIFOs (only so that the daemon's IsNamedPipe check sees what it
// would see in production; all reads go through SimPipe).
var fifoDir string

func fifoPaths() (string, string, string, error) {
	if fifoDir == "" {
		d, err := os.MkdirTemp(*fTmp, "vsim-fifo-")
		if err != nil {
			return "", "", "", err
		}
		for _, n := range []string{"sshd-pipe", "audit-pipe"} {
			if err := syscall.Mkfifo(filepath.Join(d, n), 0o600); err != nil {
				return "", "", "", err
			}
		}
		if err := os.WriteFile(filepath.Join(d, "regular-file"), []byte("x"), 0o600); err != nil {
			return "", "", "", err
		}
		fifoDir = d
	}
	return filepath.Join(fifoDir, "sshd-pipe"), filepath.Join(fifoDir, "audit-pipe"), filepath.Join(fifoDir, "regular-file"), nil
}

func quietZap() *zap.Config {
	cfg := zap.NewProductionConfig()
	cfg.OutputPaths = []string{"/dev/null"}
	cfg.ErrorOutputPaths = []string{"/dev/null"}
	return &cfg
}

// Pipeline is a running L2 or L3 system under simulation.
type Pipeline struct {
	DebugLog bool // L3: run the daemon with -log-level debug
	rc       *RunCtx
	Level    int
	H        *History
	Sshd     []TLItem
	Audit    []TLItem

	ctx    context.Context
	cancel context.CancelFunc

	// L3
	sshdPipe, auditPipe *simrt.SimPipe
	disk                *simrt.SimDisk
	Returned            bool
	RetErr              error
	// L2
	rec      *Recorder
	audits   chan string
	logins   chan common.RemoteUserLogin
	ReadDone bool
	ReadErr  error
	procErrs []string

	Out           []*OutEvent // every event written so far, in write order
	outSeen       int
	writeSeen     int
	worldLeft     int
	pidIdent      map[string]string // subjects.pid of an emitted UserLogin -> identity
	OnNew         func(axis int, evs []*OutEvent)
	BadWrites     []string // payloads that are not exactly one JSON event + newline (C10)
	Knobs         map[string]int
	NoChunk       bool
	PoisonActions bool
	InitialOutput []byte // content of the events output before the daemon starts (restart)
}

func (p *Pipeline) axis() int { return p.rc.Sim.EventCount() }

// buildTimelines converts a generated history (ops with sleeps) into two timelines.
func buildTimelines(h *History, offsetMs int) (sshdTL, auditTL []TLItem) {
	t := offsetMs
	for _, o := range h.Ops {
		switch o.Kind {
		case "sleep":
			t += o.Ms
		case "event":
			auditTL = append(auditTL, TLItem{AtMs: t, Kind: "event", S: o.S, E: o.E})
		case "noise":
			auditTL = append(auditTL, TLItem{AtMs: t, Kind: "noise", Noise: o.Noise})
		case "login":
			sshdTL = append(sshdTL, TLItem{AtMs: t, Kind: "login", S: o.S})
		}
	}
	return
}

func newPipeline(rc *RunCtx, level int, h *History, sshdTL, auditTL []TLItem) *Pipeline {
	p := &Pipeline{rc: rc, Level: level, H: h, Sshd: sshdTL, Audit: auditTL, pidIdent: map[string]string{}, Knobs: map[string]int{}}
	h.loginAt = map[int]int{}
	h.loginIdent = map[int]string{}
	h.evAt = map[string]int{}
	h.evTime = map[string]time.Time{}
	h.loginTime = map[int]time.Time{}
	return p
}

// chunks splits data into tape-chosen write sizes (fault kind pipe.chunking).
func (p *Pipeline) chunks(data []byte) [][]byte {
	if p.NoChunk || len(data) < 2 {
		return [][]byte{data}
	}
	t := p.rc.Sim.Tape
	switch t.ChooseBiased(4, "chunking") {
	case 0:
		return [][]byte{data}
	case 1: // split in two at a random byte
		k := 1 + t.Choose(len(data)-1, "chunk.at")
		p.rc.Sim.Count("pipe.chunking")
		return [][]byte{data[:k], data[k:]}
	case 2: // small pieces
		p.rc.Sim.Count("pipe.chunking")
		var out [][]byte
		for len(data) > 0 {
			k := 1 + t.Choose(40, "chunk.size")
			if k > len(data) {
				k = len(data)
			}
			out = append(out, data[:k])
			data = data[k:]
		}
		return out
	default: // newline separately
		p.rc.Sim.Count("pipe.chunking")
		return [][]byte{data[:len(data)-1], data[len(data)-1:]}
	}
}

// Start boots the system under test and the world tasks.
func (p *Pipeline) Start() error {
	rc := p.rc
	for k, v := range p.Knobs {
		rc.Sim.Knobs[k] = v
	}
	p.ctx, p.cancel = context.WithCancel(context.Background())
	hl := health.NewHealth()
	reg := prometheus.NewRegistry()
	prometheus.DefaultRegisterer = reg
	prometheus.DefaultGatherer = reg
	switch p.Level {
	case 3:
		sp, ap, _, err := fifoPaths()
		if err != nil {
			return err
		}
		p.sshdPipe = rc.Sim.AddPipe(sp)
		p.auditPipe = rc.Sim.AddPipe(ap)
		p.disk = rc.Sim.NewDisk("/sim/app-events-output.log")
		p.disk.Initial = p.InitialOutput
		os.Setenv("NODE_NAME", "sim-node")
		args := []string{"audito-maldito", "-sshd-pipe-path", sp, "-auditd-pipe-path", ap, "-app-events-output", p.disk.Path}
		if p.DebugLog {
			args = append(args, "-log-level", "debug")
		}
		rc.Sim.Spawn("daemon", func() {
			err := cmd.RunNamedPipe(p.ctx, args, hl, quietZap())
			p.setReturned(err)
		})
	case 2:
		p.rec = &Recorder{Sim: rc.Sim, PoisonActions: p.PoisonActions}
		ew := auditevent.NewAuditEventWriter(p.rec)
		p.audits = make(chan string, 64)
		p.logins = make(chan common.RemoteUserLogin)
		ap := &auditd.Auditd{Audits: p.audits, Logins: p.logins, EventW: ew, Health: hl}
		rc.Sim.Spawn("auditd.Read", func() {
			err := ap.Read(p.ctx)
			p.setReadDone(err)
		})
	}
	p.worldLeft = 2
	rc.Sim.Spawn("world.sshd", p.sshdWriter)
	rc.Sim.Spawn("world.audit", p.auditWriter)
	return nil
}

//go:norace
func (p *Pipeline) setReturned(err error) { p.Returned, p.RetErr = true, err }

//go:norace
func (p *Pipeline) setReadDone(err error) { p.ReadDone, p.ReadErr = true, err }

func (p *Pipeline) sleepUntil(start time.Time, atMs int) {
	d := time.Duration(atMs)*time.Millisecond - time.Since(start)
	if d > 0 {
		simrt.Sleep(d, "world.sleep")
	}
}

func (p *Pipeline) sshdWriter() {
	defer func() { p.worldLeft-- }()
	rc := p.rc
	var w *simrt.PipeWriter
	var proc sshd.SshdProcessor
	if p.Level == 3 {
		simrt.Point("world.open")
		w = p.sshdPipe.OpenWriter()
	} else {
		pprov := metrics.NewPrometheusMetricsProviderForRegisterer(prometheus.NewRegistry())
		proc = sshd.NewSshdProcessor(p.ctx, p.logins, "sim-node", "sim-machine-id", auditevent.NewAuditEventWriter(p.rec), pprov)
	}
	for _, it := range p.Sshd {
		p.sleepUntil(rc.Start, it.AtMs)
		simrt.Point("world.sshd")
		var line string
		var l *LoginSpec
		if it.Kind == "login" {
			l = p.H.W.Sessions[it.S].Login
			line = l.Line(rc.Sim.Tape.ChooseBiased(2, "leadingblank") == 1)
		} else {
			line = it.Raw
		}
		// "handed to the daemon" = the instant the writer starts to write the line
		if it.Kind == "login" {
			p.H.loginAt[it.S] = p.axis()
			p.H.loginTime[it.S] = time.Now()
		}
		if p.Level == 3 {
			for _, c := range p.chunks([]byte(line)) {
				w.Write(c)
				simrt.Point("world.sshd.chunk")
			}
		} else {
			var entry sshd.SshdLogEntry
			if l != nil {
				entry = sshd.SshdLogEntry{PID: fmt.Sprint(l.PID), Message: l.Message()}
			} else {
				sp := strings.SplitN(strings.TrimSuffix(line, "\n"), " ", 2)
				entry = sshd.SshdLogEntry{PID: sp[0]}
				if len(sp) > 1 {
					entry.Message = sp[1]
				}
			}
			if err := proc.ProcessSshdLogEntry(p.ctx, entry); err != nil {
				p.procErrs = append(p.procErrs, err.Error())
			}
		}
	}
}

func (p *Pipeline) auditWriter() {
	defer func() { p.worldLeft-- }()
	rc := p.rc
	var w *simrt.PipeWriter
	if p.Level == 3 {
		simrt.Point("world.open")
		w = p.auditPipe.OpenWriter()
	}
	for _, it := range p.Audit {
		p.sleepUntil(rc.Start, it.AtMs)
		simrt.Point("world.audit")
		var lines []string
		switch it.Kind {
		case "event":
			lines = p.H.W.Sessions[it.S].Events[it.E].Lines
		case "part":
			lines = p.H.W.Sessions[it.S].Events[it.E].Lines[it.Lo:it.Hi]
		case "noise":
			lines = it.Noise.Lines
		case "raw":
			lines = []string{it.Raw}
		}
		if it.Kind == "event" || (it.Kind == "part" && it.Lo == 0) {
			p.H.evAt[fmt.Sprintf("%d.%d", it.S, it.E)] = p.axis()
			p.H.evTime[fmt.Sprintf("%d.%d", it.S, it.E)] = time.Now()
		}
		if p.Level == 3 {
			data := []byte(strings.Join(lines, "\n") + "\n")
			for _, c := range p.chunks(data) {
				w.Write(c)
				simrt.Point("world.audit.chunk")
			}
		} else {
			for _, l := range lines {
				simrt.ChanSend(p.audits, l+"\n", "world.audit.send")
			}
		}
	}
}

// collect parses what was written since the last call and feeds online monitors.
func (p *Pipeline) collect() {
	var fresh []*OutEvent
	if p.Level == 3 {
		for ; p.writeSeen < len(p.disk.Writes); p.writeSeen++ {
			wr := p.disk.Writes[p.writeSeen]
			data := wr.Data
			ok := len(data) > 0 && data[len(data)-1] == '\n' && strings.Count(string(data), "\n") == 1
			var oe *OutEvent
			if ok {
				var err error
				oe, err = parseOutEvent(data[:len(data)-1])
				if err != nil || !json.Valid(data[:len(data)-1]) {
					ok = false
				}
			}
			if !ok {
				p.BadWrites = append(p.BadWrites, fmt.Sprintf("write #%d by %s: %q", wr.Seq, wr.Task, truncate(string(data), 300)))
				// salvage complete lines for the other oracles
				for _, ln := range strings.Split(string(data), "\n") {
					if e2, err := parseOutEvent([]byte(ln)); err == nil && e2.Type != "" {
						e2.Seq, e2.Task, e2.StepAt = len(p.Out)+len(fresh), wr.Task, wr.Event
						fresh = append(fresh, e2)
					}
				}
				continue
			}
			oe.Seq, oe.Task, oe.StepAt = len(p.Out)+len(fresh), wr.Task, wr.Event
			fresh = append(fresh, oe)
		}
	} else {
		for ; p.outSeen < len(p.rec.Events); p.outSeen++ {
			oe := p.rec.Events[p.outSeen]
			oe.Seq = len(p.Out) + len(fresh)
			fresh = append(fresh, oe)
		}
	}
	if len(fresh) == 0 {
		return
	}
	for _, e := range fresh {
		if e.Type == "UserLogin" && e.Outcome == "succeeded" {
			pid := e.Subjects["pid"]
			p.pidIdent[pid] = e.Identity()
			// the k-th UserLogin with this PID belongs to the k-th delivered login with this
			// PID (PIDs may be reused by later sessions)
			best := -1
			for si, s := range p.H.W.Sessions {
				if s.Login == nil || fmt.Sprint(s.Login.PID) != pid {
					continue
				}
				if _, has := p.H.loginIdent[si]; has {
					continue
				}
				at, delivered := p.H.loginAt[si]
				if !delivered {
					continue
				}
				if best < 0 || at < p.H.loginAt[best] {
					best = si
				}
			}
			if best >= 0 {
				p.H.loginIdent[best] = e.Identity()
			}
		}
	}
	p.Out = append(p.Out, fresh...)
	if p.OnNew != nil {
		p.OnNew(p.axis(), fresh)
	}
}

func truncate(s string, n int) string {
	if len(s) > n {
		return s[:n] + "..."
	}
	return s
}

// Run drives the simulation: tasks run to idleness under the chosen policy, then the clock
// advances by quantum ("advance at quiescence only"); stops when stop() holds or the
// simulated deadline passes. Returns false if a step budget was exhausted.
func (p *Pipeline) Run(stop func() bool, deadline time.Duration, quantum time.Duration, stepBudget int) bool {
	rc := p.rc
	steps := 0
	for {
		why := rc.Sim.RunUntil(func() bool {
			p.collect()
			steps++
			return rc.Failed() || steps > stepBudget || (stop != nil && stop())
		}, stepBudget)
		p.collect()
		if rc.Failed() {
			return true
		}
		if steps > stepBudget || why == "budget" {
			return false
		}
		if why == "stop" {
			return true
		}
		if rc.SimNow() >= deadline {
			return true
		}
		time.Sleep(quantum)
		rc.Sim.Logf("clock +%v", quantum)
	}
}

func (p *Pipeline) worldDone() bool { return p.worldLeft == 0 }

// Shutdown cancels the context and waits (bounded) for the system to return.
func (p *Pipeline) Shutdown() {
	p.cancel()
	if p.Level == 3 {
		p.Run(func() bool { return p.Returned }, p.rc.SimNow()+2*time.Second, 100*time.Millisecond, 20000)
	} else {
		p.Run(func() bool { return p.ReadDone }, p.rc.SimNow()+2*time.Second, 100*time.Millisecond, 20000)
	}
}

func pipelinePolicy(rc *RunCtx) string {
	switch rc.Sim.Tape.Choose(5, "policy") {
	case 0:
		rc.Sim.Policy = simrt.PolicyRunToBlock
		return "run-to-block"
	case 1:
		rc.Sim.InitPCT(1+rc.Sim.Tape.Choose(3, "pct.d"), 400)
		return "pct"
	case 2:
		rc.Sim.Policy = simrt.PolicyRandom
		return "random"
	default:
		rc.Sim.Policy = simrt.PolicyBiased
		rc.Sim.Tape.Bias = 0.7
		return "biased"
	}
}

// ---- scenarios ----

func worldCfgFor(prop string) histCfg {
	c := histCfg{MaxSessions: 4, MaxActions: 3, MaxTotalMs: 40000, SplitSweep: 0}
	switch prop {
	case "C04":
		c.Noise, c.AfterEnd = true, true
	case "C01":
		c.AfterEnd = true
	}
	return c
}

func scnPipelineWorld(prop string, level int) scenarioFn {
	return func(rc *RunCtx) {
		var h *History
		if prop == "C09" {
			h = genC09History(rc.Spec)
		} else {
			c := worldCfgFor(prop)
			c.SplitSweep = -1
			if rc.Index%2 == 0 {
				c.SplitSweep = rc.Index / 2
			}
			h = genHistory(rc.Spec, c)
		}
		if err := h.W.Prepare(); err != nil {
			rc.Abort("world: %v", err)
			return
		}
		// the whole history is shifted so that the one-minute cleanup ticks fall at varying
		// phases relative to the sessions (each session's halves stay < 60 s apart)
		// (some start a second or two before a tick, so that the tick falls inside the history
		// with the daemon already up for one, two or three minutes)
		offset := []int{0, 0, 20000, 55000, 100000, 59000, 118500, 178000}[rc.Spec.Choose(8, "offset")]
		sshdTL, auditTL := buildTimelines(h, offset)
		if prop != "C09" {
			// records on the sshd stream that look like logins but are none: an accepted line whose
			// PID field is not a number (right after a real login), and a failure line whose
			// client-chosen text carries an escaped line feed followed by "<pid> Accepted ..." for the
			// PID of one of the sessions; neither may change anything
			var withJunk []TLItem
			for _, it := range sshdTL {
				withJunk = append(withJunk, it)
				if it.Kind != "login" || rc.Spec.Choose(4, "sshd.junk") != 3 {
					continue
				}
				victim := h.W.Sessions[rc.Spec.Choose(len(h.W.Sessions), "sshd.junk.victim")].PID
				raw := "- Accepted password for mallory from 203.0.113.66 port 6666 ssh2"
				if rc.Spec.Choose(2, "sshd.junk.kind") == 1 {
					raw = fmt.Sprintf("9999 Invalid user x#012%d Accepted password for mallory from 203.0.113.66 port 6666 ssh2 from 203.0.113.66 port 6667", victim)
				}
				withJunk = append(withJunk, TLItem{AtMs: it.AtMs, Kind: "raw", Raw: raw + "\n"})
				rc.Sim.Count("sshd.junk_line")
			}
			sshdTL = withJunk
		}
		p := newPipeline(rc, level, h, sshdTL, auditTL)
		if level == 3 {
			p.Knobs["auditLogChanBufSize"] = []int{10000, 1, 2, 8, 64}[rc.Spec.Choose(5, "knob.chan")]
			p.Knobs["bufio"] = []int{4096, 16, 64}[rc.Spec.Choose(3, "knob.bufio")]
		}
		pol := pipelinePolicy(rc)
		if prop == "C04" {
			p.OnNew = func(axis int, evs []*OutEvent) { h.monitorC04(rc, axis, evs) }
		}
		type emitted struct {
			ev *OutEvent
			at int
		}
		var all []emitted
		if prop == "C09" {
			p.OnNew = func(axis int, evs []*OutEvent) {
				for _, e := range evs {
					all = append(all, emitted{e, axis})
				}
			}
		}
		if err := p.Start(); err != nil {
			rc.Abort("start: %v", err)
			return
		}
		// one output write of the daemon may take seconds (a slow disk): everything behind it waits
		var stallFor time.Duration
		if level == 3 && p.disk != nil && rc.Spec.Choose(6, "disk.stall") == 5 {
			stallFor = time.Duration(1000+rc.Spec.Choose(5000, "disk.stall.ms")) * time.Millisecond
			p.disk.StallAt, p.disk.StallFor = 1+rc.Spec.Choose(10, "disk.stall.at"), stallFor
		}
		end := time.Duration(offset+45000) * time.Millisecond
		for _, tl := range [][]TLItem{sshdTL, auditTL} {
			for _, it := range tl {
				if at := time.Duration(it.AtMs+5000) * time.Millisecond; at > end {
					end = at // a history with a long quiet period in it
				}
			}
		}
		ok := p.Run(p.worldDone, end+5*time.Second+stallFor, 100*time.Millisecond, 150000)
		if ok && !rc.Failed() {
			// settle: let the reassembler and tickers run for 3 more simulated seconds
			ok = p.Run(nil, rc.SimNow()+3*time.Second+stallFor, 100*time.Millisecond, 150000)
		}
		rc.CaseKey(h.caseKey(), offset, level)
		rc.State(h.stateKey(p.Out))
		rc.R.Sample = sampleOf(h, map[string]any{"level": level, "policy": pol, "offset_ms": offset, "written": len(p.Out), "knobs": p.Knobs})
		if !ok {
			rc.Abort("step budget exhausted: %v", rc.Sim.Live())
			return
		}
		if !p.worldDone() {
			rc.Abort("world models did not finish: %v", rc.Sim.Live())
			return
		}
		if !rc.Failed() {
			if p.Returned || p.ReadDone {
				rc.Abort("system under test stopped during a fault-free history: daemon=%v read=%v", p.RetErr, p.ReadErr)
			} else if len(p.procErrs) > 0 {
				rc.Abort("sshd processor returned errors in a fault-free history: %v", p.procErrs)
			}
		}
		if !rc.Failed() && rc.R.Abort == "" {
			switch prop {
			case "C01":
				h.checkC01(rc, p.Out)
				rc.R.NonTrivial = h.nontrivialMulti()
			case "C02":
				h.checkC02(rc, p.Out)
				rc.R.NonTrivial = h.nontrivialMulti() || len(p.Out) >= 3
			case "C04":
				rc.R.NonTrivial = len(h.W.Sessions) >= 2
			case "C09":
				rc.R.NonTrivial = true
				checkC09(rc, h, 0, 1, func(f func(e *OutEvent, op int)) {
					for _, x := range all {
						f(x.ev, x.at)
					}
				})
			}
		}
		p.Shutdown()
		rc.Cleanup(func() { p.teardown() })
	}
}

// teardown releases whatever may still be blocked (after Sim.Drain).
func (p *Pipeline) teardown() {
	p.cancel()
	if p.sshdPipe != nil {
		p.sshdPipe.OpenWriter().Close()
		p.auditPipe.OpenWriter().Close()
	}
}

func scnL2World(prop string) scenarioFn { return scnPipelineWorld(prop, 2) }
func scnL3World(prop string) scenarioFn { return scnPipelineWorld(prop, 3) }
