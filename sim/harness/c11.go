package verifsim

import (
	"context"
	"encoding/json"
	"fmt"
	"strings"
	"time"

	"github.com/metal-toolbox/audito-maldito/ingesters/namedpipe"
	"github.com/metal-toolbox/audito-maldito/ingesters/syslog"
	"github.com/metal-toolbox/audito-maldito/internal/common"
	"github.com/metal-toolbox/audito-maldito/internal/health"
	"github.com/metal-toolbox/audito-maldito/internal/simrt"
)

// C11: unrecognised or malformed sshd lines produce nothing and never crash. Valid lines
// pass through a corrupting transport (byte-level faults on the sshd pipe) into the real
// syslog ingester + sshd processor.

func init() {
	register(&propDef{
		ID: "C11", Level: "exploration",
		Families: []family{
			{Name: "corrupting-transport", Fn: scnC11, Weight: 3},
			{Name: "l3-daemon-survives", Fn: scnC11L3, Weight: 1},
		},
		Rule: "3-8 lines per run, each a valid message of a random form damaged by a taped corruption fault (truncate at a token boundary / at a random byte, drop bytes incl. the newline so that two messages splice, " +
			"duplicate a segment, prefix/suffix junk, keyword case change, bit flip, invalid UTF-8, NUL, quotes, 64 KiB line, purely random bytes) with PID token in {digits, empty, 0, negative, non-numeric, huge}; " +
			"each line is written to the simulated FIFO (taped chunking) and the pipeline run to quiescence before the next; a valid line follows at the end; " +
			"non-trivial = at least one corrupted line still produced an event or at least two corruption kinds fired; distinct = distinct (lines hash, schedule hash)",
		Quick: 8000, Thorough: 300000,
	})
}

var c11Placeholders = map[string]bool{"unknown": true, "root": true, "unknown reason": true, "certificate invalid": true, "IP": true}

func corrupt(t *simrt.Tape, rc *RunCtx, m *SshdMsg, next *SshdMsg, nonPositivePID bool) (line string, kind string) {
	msg := m.Msg
	pid := m.PID
	pk := t.Choose(7, "pidkind")
	if !nonPositivePID && (pk == 1 || pk == 2) {
		// in the assembled daemon an accepted login with a PID <= 0 is an invalid login, which
		// stops the audit processor by design (C15/C08); that family keeps to other tokens
		pk = 3
	}
	switch pk {
	case 0:
		pid = ""
	case 1:
		pid = "0"
	case 2:
		pid = "-" + pid
	case 3:
		pid = "sshd[" + pid + "]"
	case 4:
		pid = "99999999999999999999999"
	}
	toks := strings.Split(msg, " ")
	k := t.Choose(16, "corruption")
	switch k {
	case 0:
		kind = "none"
	case 1:
		kind = "truncate-token"
		n := t.Choose(len(toks)+1, "cut")
		msg = strings.Join(toks[:n], " ")
	case 2:
		kind = "truncate-byte"
		msg = msg[:t.Choose(len(msg)+1, "cutb")]
	case 3:
		kind = "drop-bytes"
		if len(msg) > 2 {
			a := t.Choose(len(msg)-1, "a")
			b := a + 1 + t.Choose(len(msg)-a-1, "b")
			msg = msg[:a] + msg[b:]
		}
	case 4:
		kind = "splice-lost-newline"
		return pid + " " + msg + next.PID + " " + next.Msg + "\n", kind
	case 5:
		kind = "dup-segment"
		if len(toks) > 2 {
			a := t.Choose(len(toks)-1, "a")
			seg := toks[a : a+1+t.Choose(len(toks)-a-1, "len")]
			toks2 := append(append(append([]string{}, toks[:a]...), seg...), toks[a:]...)
			msg = strings.Join(toks2, " ")
		}
	case 6:
		kind = "prefix-junk"
		msg = []string{"sshd: ", "<86>", "error: ", "\x00", "\"", "  "}[t.Choose(6, "junk")] + msg
	case 7:
		kind = "suffix-junk"
		msg = msg + []string{" [preauth]", "\x00\x00", " \"", "\t", " ID x (serial 1) CA y z", ": "}[t.Choose(6, "junk")]
	case 8:
		kind = "keyword-case"
		if t.Choose(2, "updown") == 0 {
			msg = strings.ToUpper(msg[:1]) + strings.ToLower(msg[1:])
		} else {
			msg = strings.ToLower(msg[:1]) + msg[1:]
		}
	case 9:
		kind = "bitflip"
		if len(msg) > 0 {
			b := []byte(msg)
			i := t.Choose(len(b), "at")
			b[i] ^= 1 << uint(t.Choose(8, "bit"))
			if b[i] == '\n' {
				b[i] = 'n'
			}
			msg = string(b)
		}
	case 10:
		kind = "invalid-utf8"
		i := t.Choose(len(msg)+1, "at")
		msg = msg[:i] + "\xff\xfe\xc0" + msg[i:]
	case 11:
		kind = "huge-line"
		i := t.Choose(len(msg)+1, "at")
		msg = msg[:i] + strings.Repeat("A", 65536) + msg[i:]
	case 12:
		kind = "random-bytes"
		b := make([]byte, t.Choose(200, "n"))
		for i := range b {
			b[i] = byte(t.Aux(256))
			if b[i] == '\n' {
				b[i] = ' '
			}
		}
		if t.Choose(2, "kw") == 1 {
			msg = sshdKeywords[t.Choose(len(sshdKeywords), "kw.which")] + string(b)
		} else {
			msg = string(b)
		}
	case 13:
		kind = "keyword-only"
		msg = sshdKeywords[t.Choose(len(sshdKeywords), "kw.which")]
	default:
		// the line starts with its own keyword (plus junk) and then holds the complete
		// message: every unanchored pattern matches at a non-zero offset
		kind = "keyword-then-full-message"
		own := ""
		for _, k := range sshdKeywords {
			if strings.HasPrefix(msg, k) && len(k) > len(own) {
				own = k
			}
		}
		msg = own + []string{"-ish ", "/x ", ": ", " "}[t.Choose(4, "sep")] + msg
	}
	rc.Sim.Count("line.corrupt_sshd." + kind)
	return pid + " " + msg + "\n", kind
}

func allStrings(v any, out *[]string) {
	switch x := v.(type) {
	case string:
		*out = append(*out, x)
	case map[string]any:
		for k, y := range x {
			if k == "type" {
				continue
			}
			allStrings(y, out)
		}
	case []any:
		for _, y := range x {
			allStrings(y, out)
		}
	}
}

func scnC11(rc *RunCtx) {
	t := rc.Spec
	ctx, cancel := context.WithCancel(context.Background())
	rc.Cleanup(cancel)
	rec := &Recorder{Sim: rc.Sim}
	logins := make(chan common.RemoteUserLogin, 64)
	path := "/sim/c11-sshd-pipe"
	pipe := rc.Sim.AddPipe(path)
	sli := syslog.NewSyslogIngester(path, newSshdProc(ctx, rec, logins), namedpipe.NewNamedPipeIngester(nopLogger, health.NewHealth()))
	res := &doneFlag{}
	rc.Sim.Spawn("sshd-ingest", func() { res.set(sli.Ingest(ctx)) })
	pipelinePolicy(rc)
	w := pipe.OpenWriter()
	n := 3 + t.Choose(6, "nlines")
	type sent struct {
		line, kind string
	}
	var lines []sent
	for i := 0; i < n; i++ {
		m := GenSshdMsg(t, "", i+1)
		nx := GenSshdMsg(t, "", i+50)
		l, k := corrupt(t, rc, m, nx, true)
		lines = append(lines, sent{l, k})
	}
	final := GenSshdMsg(t, []string{"accepted-password", "accepted-cert", "invalid-user", "cert-invalid", "accepted-key", "accepted-keypad"}[t.Choose(6, "final")], 99)
	lines = append(lines, sent{final.Line(0), "valid-final"})
	// the same processor handles every line: a second valid line of another kind follows in
	// most runs (nothing of the first may show up in its event)
	if f2 := t.Choose(5, "final2"); f2 > 0 {
		second := []string{"accepted-key", "accepted-keypad", "accepted-cert", "failed-password"}
		if final.Form == "accepted-cert" {
			second = []string{"accepted-key", "accepted-keypad", "accepted-key", "accepted-password"}
		}
		final = GenSshdMsg(t, second[f2-1], 98)
		lines = append(lines, sent{final.Line(0), "valid-final"})
	}
	kinds := map[string]bool{}
	pp := &Pipeline{rc: rc}
	evSeen, eventsFromCorrupt := 0, 0
	var hsh []string
	for i, s := range lines {
		kinds[s.kind] = true
		hsh = append(hsh, s.line)
		data := []byte(s.line)
		wd := &doneFlag{}
		rc.Sim.Spawn(fmt.Sprintf("world.w%d", i), func() {
			for _, c := range pp.chunks(data) {
				simrt.Point("world.chunk")
				w.Write(c)
			}
			wd.set(nil)
		})
		// run to quiescence (line fully written and consumed)
		for j := 0; j < 5; j++ {
			why := rc.Sim.RunUntil(func() bool { return res.v }, 400000)
			if why != "idle" || (wd.v && pipe.Buffered() == 0 && pipe.BlockedRead) {
				break
			}
			time.Sleep(10 * time.Millisecond)
		}
		if len(rc.Sim.Panics) > 0 {
			rc.Fail("C11", "panic", "processing line %q (%s) panicked: %s", truncate(s.line, 200), s.kind, rc.Sim.Panics[0].Value)
			break
		}
		if res.v {
			rc.Fail("C11", "pipeline-stopped", "the sshd pipeline stopped with %v after line %q (%s)", res.err, truncate(s.line, 200), s.kind)
			break
		}
		if !wd.v || pipe.Buffered() != 0 {
			rc.Abort("line %d not consumed: %v", i, rc.Sim.Live())
			break
		}
		newEvs := rec.Events[evSeen:]
		evSeen = len(rec.Events)
		newLogins := drainLogins(logins)
		// the delivered text may hold several records only if it contains newlines (it does not)
		if len(newEvs) > 1 {
			rc.Fail("C11", "more-than-one-event", "line %q (%s) produced %d events", truncate(s.line, 200), s.kind, len(newEvs))
			break
		}
		succeeded := len(newEvs) == 1 && newEvs[0].Outcome == "succeeded"
		if len(newLogins) > 0 && !succeeded {
			rc.Fail("C11", "login-without-succeeded-event", "line %q (%s) forwarded %d login(s) without a succeeded event in the same call", truncate(s.line, 200), s.kind, len(newLogins))
			break
		}
		if len(newLogins) > 1 {
			rc.Fail("C11", "login-without-succeeded-event", "line %q (%s) forwarded %d logins", truncate(s.line, 200), s.kind, len(newLogins))
			break
		}
		if len(newEvs) == 1 {
			if s.kind != "valid-final" && s.kind != "none" {
				eventsFromCorrupt++
			}
			// message = line after the first blank-separated token and padding
			body := strings.TrimSuffix(s.line, "\n")
			msg := ""
			if i := strings.Index(body, " "); i >= 0 {
				msg = strings.TrimLeft(body[i+1:], " ")
			}
			kw := false
			for _, k := range sshdKeywords {
				if strings.HasPrefix(msg, k) {
					kw = true
				}
			}
			if !kw {
				rc.Fail("C11", "event-without-keyword", "line %q (%s) does not begin with a recognised message keyword but produced an event: %s", truncate(s.line, 200), s.kind, newEvs[0].Raw)
				break
			}
			// in-memory field values of the event handed to the encoder (verbatim check)
			var strs []string
			pe := newEvs[0].Ptr
			for _, v := range pe.Subjects {
				strs = append(strs, v)
			}
			strs = append(strs, pe.Source.Value)
			for _, v := range pe.Source.Extra {
				allStrings(v, &strs)
			}
			for _, v := range pe.Metadata.Extra {
				allStrings(v, &strs)
			}
			for _, v := range strs {
				if c11Placeholders[v] || strings.Contains(body, v) {
					continue
				}
				rc.Fail("C11", "fabricated-field", "line %q (%s): extracted field value %q is neither a substring of the line nor a placeholder; event: %s", truncate(s.line, 300), s.kind, truncate(v, 100), truncate(newEvs[0].Raw, 600))
				break
			}
			// the data blob is JSON-encoded by the daemon itself, which replaces invalid UTF-8
			// bytes by U+FFFD: compare modulo that encoding (ASCII skeleton for such values)
			if pe.Data != nil && !rc.Failed() {
				var data any
				var dstrs []string
				json.Unmarshal(*pe.Data, &data)
				allStrings(data, &dstrs)
				for _, v := range dstrs {
					if c11Placeholders[v] || strings.Contains(body, v) {
						continue
					}
					if strings.Contains(v, "\ufffd") && strings.Contains(asciiSkeleton(body), asciiSkeleton(v)) {
						continue
					}
					rc.Fail("C11", "fabricated-field", "line %q (%s): extracted data value %q is neither a substring of the line nor a placeholder; event: %s", truncate(s.line, 300), s.kind, truncate(v, 100), truncate(newEvs[0].Raw, 600))
					break
				}
			}
			if rc.Failed() {
				break
			}
		}
		if s.kind == "valid-final" && len(newEvs) != 1 {
			rc.Fail("C11", "pipeline-not-working-afterwards", "after the corrupted lines a valid %s line produced %d events", final.Form, len(newEvs))
		}
	}
	rc.CaseKey(hashStr(hsh...))
	rc.R.NonTrivial = eventsFromCorrupt > 0 || len(kinds) >= 3
	var ks []string
	for k := range kinds {
		ks = append(ks, k)
	}
	var show []string
	for _, s := range lines {
		show = append(show, s.kind+": "+truncate(s.line, 160))
	}
	rc.R.Sample = map[string]any{"lines": show, "events": len(rec.Events), "events_from_corrupted_lines": eventsFromCorrupt}
	w.Close()
}

// withKeyID gives a generated certificate login with an empty key id a non-empty one.
func withKeyID(m *SshdMsg) *SshdMsg {
	if m.Login != nil && m.Login.Form == "cert" && m.Login.KeyID == "" {
		m.Login.KeyID = "nonempty@example.com"
		m.Msg = m.Login.Message()
	}
	return m
}

func asciiSkeleton(x string) string {
	b := make([]byte, 0, len(x))
	for i := 0; i < len(x); i++ {
		if x[i] < 0x80 {
			b = append(b, x[i])
		}
	}
	return string(b)
}

// scnC11L3: the same corrupted lines on the sshd pipe of the assembled daemon, mixed with
// a correlated session: the daemon must keep running, and the valid traffic is processed.
func scnC11L3(rc *RunCtx) {
	t := rc.Spec
	k := NewKaudit()
	w := &L1World{}
	pid := 9300 + t.Choose(100, "pid")
	s := &Session{Ses: "880", PID: pid, UID: 1000, Kind: "ssh"}
	s.Login = GenLogin(t, pid, 1)
	s.Events = append(s.Events, k.Login(s.Ses, pid, s.UID), GenAction(t, k, s.Ses, pid, s.UID))
	w.Sessions = []*Session{s}
	h := &History{W: w}
	if err := w.Prepare(); err != nil {
		rc.Abort("world: %v", err)
		return
	}
	var sshdTL, auditTL []TLItem
	n := 2 + t.Choose(6, "nlines")
	var hs []string
	ms := 0
	for i := 0; i < n; i++ {
		// (a certificate login with an empty key id is an invalid login for the audit processor,
		// which stops the daemon by design: C15, C08)
		m := withKeyID(GenSshdMsg(t, "", i+1))
		nx := withKeyID(GenSshdMsg(t, "", i+50))
		l, kind := corrupt(t, rc, m, nx, false)
		if len(l) > 4000 {
			l = l[:4000] + "\n" // keep the L3 run short; long lines are covered by the other family
		}
		hs = append(hs, kind)
		sshdTL = append(sshdTL, TLItem{AtMs: ms, Kind: "raw", Raw: l})
		ms += 10
	}
	sshdTL = append(sshdTL, TLItem{AtMs: ms, Kind: "login", S: 0})
	auditTL = append(auditTL, TLItem{AtMs: ms + 10, Kind: "event", S: 0, E: 0}, TLItem{AtMs: ms + 20, Kind: "event", S: 0, E: 1})
	p := newPipeline(rc, 3, h, sshdTL, auditTL)
	p.Knobs["bufio"] = []int{4096, 16, 64}[t.Choose(3, "knob.bufio")]
	pol := pipelinePolicy(rc)
	if err := p.Start(); err != nil {
		rc.Abort("start: %v", err)
		return
	}
	ok := p.Run(p.worldDone, time.Duration(ms+3000)*time.Millisecond, 100*time.Millisecond, 200000)
	if ok {
		ok = p.Run(nil, rc.SimNow()+3*time.Second, 100*time.Millisecond, 200000)
	}
	rc.CaseKey(strings.Join(hs, ","), pid, len(sshdTL))
	rc.R.NonTrivial = true
	rc.R.Sample = map[string]any{"corruptions": hs, "policy": pol, "written": len(p.Out), "daemon_returned": p.Returned, "error": fmt.Sprint(p.RetErr)}
	rc.Cleanup(func() { p.teardown() })
	if !ok {
		rc.Abort("run did not finish: %v", rc.Sim.Live())
		return
	}
	if len(rc.Sim.Panics) > 0 {
		rc.Fail("C11", "panic", "a corrupted sshd line panicked the daemon: %s", rc.Sim.Panics[0].Value)
		return
	}
	if p.Returned {
		if p.RetErr != nil && strings.Contains(p.RetErr.Error(), "failed to validate remote user login") {
			// a corrupted line that still reads as an accepted login whose PID or key id the audit
			// processor rejects: that stop is by design (C15, C08), not a crash of the sshd side
			rc.Sim.Count("c11.stopped_by_invalid_login")
			rc.R.NonTrivial = false
			return
		}
		rc.Fail("C11", "pipeline-stopped", "the daemon stopped with %v after corrupted sshd lines %v", p.RetErr, hs)
		return
	}
	acts := 0
	for _, e := range p.Out {
		if e.Type == "UserAction" && e.AuditID == s.Ses {
			acts++
		}
	}
	if acts != 2 {
		rc.Fail("C11", "pipeline-not-working-afterwards", "after corrupted sshd lines %v the valid login and its session produced %d of 2 UserActions", hs, acts)
	}
	p.Shutdown()
}
