package verifsim

import (
	"context"
	"fmt"
	"strings"
	"time"

	"github.com/metal-toolbox/auditevent"
	"github.com/prometheus/client_golang/prometheus"

	"github.com/metal-toolbox/audito-maldito/ingesters/auditlog"
	"github.com/metal-toolbox/audito-maldito/ingesters/namedpipe"
	"github.com/metal-toolbox/audito-maldito/ingesters/syslog"
	"github.com/metal-toolbox/audito-maldito/internal/common"
	"github.com/metal-toolbox/audito-maldito/internal/health"
	"github.com/metal-toolbox/audito-maldito/internal/metrics"
	"github.com/metal-toolbox/audito-maldito/internal/simrt"
	"github.com/metal-toolbox/audito-maldito/processors/auditd"
	"github.com/metal-toolbox/audito-maldito/processors/sshd"
)

// C13: every worker stops promptly on cancellation in every blocking state and delivers
// nothing afterwards. Cancellation is a fault injected either in a constructively
// established state or at a tape-chosen scheduler step.

func init() {
	register(&propDef{
		ID: "C13", Level: "fault_enumeration",
		Families: []family{
			{Name: "ingest-waiting-for-writer", Fn: scnC13Ingest("open"), Weight: 1},
			{Name: "ingest-idle-read", Fn: scnC13Ingest("read"), Weight: 1},
			{Name: "ingest-after-writer-left", Fn: scnC13Ingest("eof"), Weight: 1},
			{Name: "audit-ingest-backpressure", Fn: scnC13Backpressure, Weight: 2},
			{Name: "sshd-handoff-blocked", Fn: scnC13Handoff, Weight: 1},
			{Name: "auditd-read", Fn: scnC13Read, Weight: 2},
			{Name: "l3-daemon-cancel", Fn: scnC13L3, Weight: 1},
		},
		Rule: "cancellation injected into each blocking state of each worker (ingester waiting for a writer; blocked reading an idle pipe, each for 0 s to 5 simulated minutes before the cancellation; after the last writer closed the pipe (whatever the ingester does at the end of the stream); audit ingester handing a record downstream " +
			"with a stopped consumer and buffer capacities {1,2,8,64,10000}, buffer empty or full, the writer still connected or gone, cancelled at once or after 2 s to 5 simulated minutes of back-pressure; sshd pipeline handing a login to an unready correlator for 0 s to 5 simulated minutes; audit processor idle / with lines queued / mid-push / during a maintenance flush / with a producer outside the cancelled group that keeps its queue topped up / with 18-47 failures queued behind an incomplete group; ended by a cancel call or by the context's own deadline), " +
			"either in the constructively established state or at a tape-chosen scheduler step; plus the assembled daemon cancelled at a taped step under traffic; then a fair schedule with the clock advancing at quiescence: the worker must return within 1 simulated second and 20000 steps " +
			"and stay silent for 10 further simulated seconds while input remains available; non-trivial = the intended blocking state was reached (probe) before cancel; distinct = distinct (state, capacity, fill, cancel step, schedule hash)",
		Quick: 6400, Thorough: 200000,
	})
}

type doneFlag struct {
	v   bool
	err error
}

//go:norace
func (f *doneFlag) set(err error) { f.v, f.err = true, err }

type counterBox struct{ n int }

//go:norace
func (c *counterBox) inc() { c.n++ }

// settleAfterCancel runs a fair schedule, advancing the clock at quiescence only, until
// done() or the bounds (1 simulated second, 20000 steps) are exceeded.
func settleAfterCancel(rc *RunCtx, done func() bool, bound time.Duration) (bool, string) {
	// a fair schedule: either every task runs until it blocks, or (taped) uniformly random
	// turns, so that both "the worker returns first" and "its helpers finish first" occur
	rc.Sim.Policy = simrt.PolicyRunToBlock
	if rc.Sim.Tape.Choose(2, "settle.policy") == 1 {
		rc.Sim.Policy = simrt.PolicyRandom
	}
	rc.Sim.Frozen = nil
	t0 := rc.SimNow()
	steps0 := rc.Sim.Steps
	for {
		why := rc.Sim.RunUntil(done, 20000)
		if why == "stop" {
			return true, ""
		}
		if why == "budget" || rc.Sim.Steps-steps0 > 20000 {
			return false, "more than 20000 scheduler steps after cancellation"
		}
		if rc.SimNow()-t0 >= bound {
			return false, fmt.Sprintf("%v of simulated time after cancellation", bound)
		}
		time.Sleep(100 * time.Millisecond)
	}
}

func quietFor(rc *RunCtx, d time.Duration) {
	t0 := rc.SimNow()
	for rc.SimNow()-t0 < d {
		if rc.Sim.RunUntil(nil, 50000) == "budget" {
			return
		}
		time.Sleep(500 * time.Millisecond)
	}
	rc.Sim.RunUntil(nil, 50000)
}

// runToStepOrState runs until cond() or (if step >= 0) exactly step scheduler steps.
func runToStepOrState(rc *RunCtx, cond func() bool, step int, maxSimMs int) bool {
	n := 0
	for i := 0; i < maxSimMs/100+1; i++ {
		why := rc.Sim.RunUntil(func() bool {
			n++
			return cond() || (step >= 0 && n > step)
		}, 200000)
		if why == "stop" {
			return true
		}
		if why == "budget" {
			return false
		}
		time.Sleep(100 * time.Millisecond)
	}
	return cond()
}

// ---- ingester: waiting for a writer / idle read ----

func scnC13Ingest(state string) scenarioFn {
	return func(rc *RunCtx) {
		t := rc.Spec
		path := "/sim/c13-pipe"
		pipe := rc.Sim.AddPipe(path)
		ctx, cancel := context.WithCancel(context.Background())
		rc.Cleanup(cancel)
		if t.Choose(3, "ctx.deadline") == 2 {
			// the context also carries a deadline far in the future (a parent with a time-out)
			var cancel2 context.CancelFunc
			ctx, cancel2 = context.WithTimeout(ctx, time.Hour)
			rc.Cleanup(cancel2)
			rc.Sim.Count("c13.ctx_with_deadline")
		}
		npi := namedpipe.NewNamedPipeIngester(nopLogger, health.NewHealth())
		calls := &counterBox{}
		res := &doneFlag{}
		rc.Sim.Spawn("ingest", func() {
			err := npi.Ingest(ctx, path, '\n', func(context.Context, string) error { calls.inc(); return nil })
			res.set(err)
		})
		pre := 0
		var w *simrt.PipeWriter
		if state == "read" || state == "eof" {
			w = pipe.OpenWriter()
			pre = t.Choose(4, "prelines")
			for i := 0; i < pre; i++ {
				w.Write([]byte(fmt.Sprintf("line %d\n", i)))
			}
			if t.Choose(3, "partial") == 0 {
				w.Write([]byte("partial-without-newline"))
			}
		}
		pipelinePolicy(rc)
		step := -1
		if t.Choose(2, "cancel.mode") == 1 {
			step = t.Choose(40, "cancel.step")
		}
		if state == "eof" {
			// the writer goes away; the ingester sees the end of the stream (a taped number of
			// scheduler steps or up to two simulated seconds later the context is cancelled)
			leaving := w
			rc.Sim.Spawn("world.writer-leaves", func() { simrt.Point("world.close"); leaving.Close() })
			w = nil
		}
		reached := runToStepOrState(rc, func() bool {
			if state == "open" {
				return pipe.BlockedOpen
			}
			if state == "eof" {
				return res.v
			}
			return pipe.BlockedRead && calls.n == pre
		}, step, 2000)
		inState := (state == "open" && pipe.BlockedOpen) || (state == "read" && pipe.BlockedRead) || (state == "eof" && pipe.Writers() == 0)
		if inState {
			rc.Sim.Count("cancel_in_state_" + state)
		}
		_ = reached
		// the worker may have been in that state for a long time when the cancellation comes
		// (a log daemon that starts minutes later, a quiet night)
		dwell := []time.Duration{0, 0, 30 * time.Second, 90 * time.Second, 5 * time.Minute}[t.Choose(5, "dwell")]
		if inState && state != "eof" && dwell > 0 {
			quietFor(rc, dwell)
			rc.Sim.Count("c13.dwell_before_cancel")
			if res.v {
				inState = false // it gave up on its own: nothing left to cancel
			}
		}
		callsAtCancel := calls.n
		cancel()
		rc.Sim.Count("ctx.cancel")
		ok, why := settleAfterCancel(rc, func() bool { return res.v }, time.Second)
		rc.CaseKey(state, pre, step, dwell)
		rc.R.NonTrivial = inState
		rc.R.Sample = map[string]any{"worker": "namedpipe.Ingest", "state": state, "lines_before": pre, "cancel_at_step": step, "in_state_at_cancel": inState, "returned": res.v, "err": fmt.Sprint(res.err)}
		if !ok {
			rc.Fail("C13", "no-return-"+state, "namedpipe.Ingest did not return after cancellation (%s) while %s: %v", why,
				map[string]string{"open": "waiting for a writer to open the pipe", "read": "blocked reading an idle pipe", "eof": "no writer is connected any more (end of stream seen)"}[state], rc.Sim.Live())
			return
		}
		_ = callsAtCancel
		// input keeps coming: nothing may be delivered after the worker returned
		callsAtReturn := calls.n
		if w == nil {
			w = pipe.OpenWriter()
		}
		w.Write([]byte("late line 1\nlate line 2\n"))
		quietFor(rc, 10*time.Second)
		if calls.n != callsAtReturn {
			rc.Fail("C13", "delivery-after-return", "%d callbacks after Ingest returned", calls.n-callsAtReturn)
		}
	}
}

// ---- audit ingester: handing a record downstream, consumer stopped ----

func scnC13Backpressure(rc *RunCtx) {
	t := rc.Spec
	capacity := []int{1, 2, 8, 64, 10000}[t.Choose(5, "capacity")]
	if rc.Tier == "quick" && capacity == 10000 && rc.Index%8 != 0 {
		capacity = 64 // the real capacity is the slowest case: a fixed share of the quick tier
	}
	full := t.Choose(3, "fill") != 0
	path := "/sim/c13-audit-pipe"
	pipe := rc.Sim.AddPipe(path)
	ctx, cancel := context.WithCancel(context.Background())
	rc.Cleanup(cancel)
	ch := make(chan string, capacity)
	npi := namedpipe.NewNamedPipeIngester(nopLogger, health.NewHealth())
	ali := auditlog.NewAuditLogIngester(path, ch, npi)
	res := &doneFlag{}
	rc.Sim.Spawn("audit-ingest", func() { res.set(ali.Ingest(ctx)) })
	w := pipe.OpenWriter()
	n := capacity / 2
	if full {
		n = capacity + 1 + t.Choose(3, "extra")
	}
	k := NewKaudit()
	var sb strings.Builder
	for i := 0; i < n; i++ {
		sb.WriteString(k.UserMsg("USER_START", "77", 1234, 1000, true, 0).Lines[0])
		sb.WriteByte('\n')
	}
	rc.Sim.Policy = simrt.PolicyRunToBlock
	// the writer is a world task: the pipe holds at most 64 KiB
	data := []byte(sb.String())
	wdone := &doneFlag{}
	rc.Sim.Spawn("world.writer", func() { w.Write(data); wdone.set(nil) })
	step := -1
	if t.Choose(3, "cancel.mode") == 0 {
		step = t.Choose(60, "cancel.step")
	}
	blockedSend := func() bool {
		for _, l := range rc.Sim.Live() {
			if strings.HasPrefix(l, "audit-ingest ") && strings.Contains(l, "blocked-after@") && strings.Contains(l, "auditlogingester.go") {
				return true
			}
		}
		return false
	}
	runToStepOrState(rc, func() bool {
		if full {
			return len(ch) == capacity && blockedSend()
		}
		return wdone.v && pipe.BlockedRead
	}, step, 3000)
	isFull := len(ch) == capacity
	if isFull && blockedSend() {
		rc.Sim.Count("chan_full_at_cancel")
	}
	// the writer may have gone away (its end of the pipe closed) by the time the cancellation
	// arrives, with records still queued for a consumer that has stopped
	if step < 0 && wdone.v && t.Choose(4, "writer.leaves") == 3 {
		w.Close()
		rc.Sim.Count("c13.writer_left_with_records_queued")
		quietFor(rc, 300*time.Millisecond)
	}
	// the back-pressure may have lasted for a while when the cancellation arrives
	waited := []int{0, 0, 2, 7, 40, 90, 300, 0}[t.Choose(8, "blocked.for.s")]
	if step < 0 && waited > 0 {
		quietFor(rc, time.Duration(waited)*time.Second)
		rc.Sim.Count("cancel_after_long_backpressure")
	}
	cancel()
	rc.Sim.Count("ctx.cancel")
	ok, why := settleAfterCancel(rc, func() bool { return res.v }, time.Second)
	rc.CaseKey(capacity, full, step, n)
	rc.R.NonTrivial = !full || isFull
	rc.R.Sample = map[string]any{"worker": "auditlog.Ingest", "capacity": capacity, "lines": n, "buffer_full_at_cancel": isFull, "blocked_for_s_before_cancel": waited, "cancel_at_step": step, "returned": res.v, "err": fmt.Sprint(res.err)}
	if !ok {
		rc.Fail("C13", "no-return-backpressure", "the audit log ingester did not return after cancellation (%s) while handing a record downstream: buffer %d/%d, consumer stopped: %v",
			why, len(ch), capacity, rc.Sim.Live())
		// unblock for teardown
		rc.Cleanup(func() {
			for len(ch) > 0 {
				<-ch
			}
		})
		return
	}
	// consumer comes back and drains; nothing more may be handed down
	lenAtReturn := len(ch)
	got := 0
	for len(ch) > 0 {
		<-ch
		got++
	}
	w2 := pipe.OpenWriter()
	rc.Sim.Spawn("world.writer2", func() { w2.Write([]byte(k.UserMsg("USER_END", "77", 1234, 1000, true, 0).Lines[0] + "\n")) })
	quietFor(rc, 10*time.Second)
	if len(ch) > 0 {
		rc.Fail("C13", "delivery-after-return", "%d records handed downstream after the audit ingester returned (buffer had %d at return)", len(ch), lenAtReturn)
	}
}

// ---- sshd pipeline: handing a login to an unready correlator ----

func scnC13Handoff(rc *RunCtx) {
	t := rc.Spec
	path := "/sim/c13-sshd-pipe"
	pipe := rc.Sim.AddPipe(path)
	ctx, cancel := context.WithCancel(context.Background())
	rc.Cleanup(cancel)
	logins := make(chan common.RemoteUserLogin)
	rec := &Recorder{Sim: rc.Sim}
	pprov := metrics.NewPrometheusMetricsProviderForRegisterer(prometheus.NewRegistry())
	proc := sshd.NewSshdProcessor(ctx, logins, "sim-node", "sim-mid", auditevent.NewAuditEventWriter(rec), pprov)
	npi := namedpipe.NewNamedPipeIngester(nopLogger, health.NewHealth())
	sli := syslog.NewSyslogIngester(path, proc, npi)
	res := &doneFlag{}
	rc.Sim.Spawn("sshd-ingest", func() { res.set(sli.Ingest(ctx)) })
	w := pipe.OpenWriter()
	l := GenLogin(t, 4100+t.Choose(100, "pid"), 1)
	// handed over without the line terminator problem: the message is followed by a second line
	w.Write([]byte(l.Line(false)))
	pipelinePolicy(rc)
	step := -1
	if t.Choose(3, "cancel.mode") == 0 {
		step = t.Choose(50, "cancel.step")
	}
	blockedHandoff := func() bool {
		for _, x := range rc.Sim.Live() {
			if strings.HasPrefix(x, "sshd-ingest ") && strings.Contains(x, "blocked-after@") && strings.Contains(x, "sshdprocessor.go") {
				return true
			}
		}
		return false
	}
	runToStepOrState(rc, blockedHandoff, step, 2000)
	inState := blockedHandoff()
	if inState {
		rc.Sim.Count("cancel_in_state_handoff")
		// the correlator may have been unready for a long time when the cancellation comes
		if dwell := []time.Duration{0, 0, 3 * time.Second, 70 * time.Second, 5 * time.Minute}[t.Choose(5, "handoff.dwell")]; dwell > 0 && step < 0 {
			quietFor(rc, dwell)
			rc.Sim.Count("c13.handoff_dwell_before_cancel")
			if res.v || !blockedHandoff() {
				inState = false // it gave up on its own: nothing left to cancel (not C13's business)
			}
		}
	}
	cancel()
	rc.Sim.Count("ctx.cancel")
	ok, why := settleAfterCancel(rc, func() bool { return res.v }, time.Second)
	rc.CaseKey(l.Form, step, inState)
	rc.R.NonTrivial = inState
	rc.R.Sample = map[string]any{"worker": "syslog.Ingest + sshd processor", "login_form": l.Form, "cancel_at_step": step, "blocked_in_handoff_at_cancel": inState, "events_written": len(rec.Events), "returned": res.v, "err": fmt.Sprint(res.err)}
	if !ok {
		rc.Fail("C13", "no-return-handoff", "the sshd pipeline did not return after cancellation (%s) while handing a login to an unready correlator: %v", why, rc.Sim.Live())
		return
	}
	// the correlator becomes ready now: nothing may arrive
	evAtReturn := len(rec.Events)
	got := &counterBox{}
	rc.Sim.Spawn("late-correlator", func() {
		for {
			select {
			case <-logins:
				got.inc()
			case <-time.After(8 * time.Second):
				return
			}
		}
	})
	w.Write([]byte(GenLogin(t, 4300, 2).Line(false)))
	quietFor(rc, 10*time.Second)
	if got.n > 0 {
		rc.Fail("C13", "delivery-after-return", "%d logins forwarded after the sshd pipeline returned", got.n)
	} else if len(rec.Events) != evAtReturn {
		rc.Fail("C13", "delivery-after-return", "%d events written after the sshd pipeline returned", len(rec.Events)-evAtReturn)
	}
}

// ---- audit processor ----

func scnC13Read(rc *RunCtx) {
	t := rc.Spec
	ctx, cancel := context.WithCancel(context.Background())
	rc.Cleanup(cancel)
	// the context may end by a deadline instead of a cancel call (a parent with a time-out)
	byDeadline := t.Choose(5, "ctx.ends.by.deadline") == 4
	const deadlineAfter = 8 * time.Second
	if byDeadline {
		var cancel2 context.CancelFunc
		ctx, cancel2 = context.WithTimeout(ctx, deadlineAfter)
		rc.Cleanup(cancel2)
		rc.Sim.Count("c13.ctx_ends_by_deadline")
	}
	rec := &Recorder{Sim: rc.Sim}
	audits := make(chan string, 256)
	logins := make(chan common.RemoteUserLogin)
	ap := &auditd.Auditd{Audits: audits, Logins: logins, EventW: auditevent.NewAuditEventWriter(rec), Health: health.NewHealth()}
	res := &doneFlag{}
	rc.Sim.Spawn("auditd.Read", func() { res.set(ap.Read(ctx)) })
	k := NewKaudit()
	// a correlated session so that queued lines produce writes
	pid := 4500
	rul := MakeRUL(GenLogin(t, pid, 1), time.Now())
	loginSent := &doneFlag{}
	rc.Sim.Spawn("world.login", func() { simrt.ChanSend(logins, rul, "world.login"); loginSent.set(nil) })
	queued := t.Choose(30, "queued")
	lines := []string{k.Login("610", pid, 1000).Lines[0]}
	for i := 0; i < queued; i++ {
		lines = append(lines, GenAction(t, k, "610", pid, 1000).Lines...)
	}
	for _, l := range lines {
		audits <- l + "\n"
	}
	pipelinePolicy(rc)
	mode := t.Choose(6, "state")
	step := -1
	slowSink := false
	stopFeed := &doneFlag{}
	rc.Cleanup(func() { stopFeed.set(nil) })
	if mode == 5 {
		// a burst of failures waiting to be reported: LOGIN records with unparsable PIDs queued in
		// sequence order behind a group that is not complete yet; they are all released at once
		// (by the flush on the way out, or by the time-out)
		inc := k.Exec("610", pid+300, 1000, []string{"ls", "-la"}, true, true, false)
		for _, l := range inc.Lines[:2] {
			audits <- l + "\n"
		}
		for i, n := 0, 18+t.Choose(30, "nfailures"); i < n; i++ {
			bad := k.Login(fmt.Sprint(700+i), 1, 1001)
			audits <- strings.Replace(bad.Lines[0], "pid=1 ", "pid=zzz ", 1) + "\n"
		}
		rc.Sim.Count("c13.failure_burst_behind_incomplete_group")
	}
	if mode == 3 {
		// a record group of the bound session that lacks its terminating record: only the
		// periodic maintenance (2 s time-out, 500 ms tick) releases it
		inc := k.Exec("610", pid+300, 1000, []string{"ls", "-la"}, true, true, false)
		for _, l := range inc.Lines[:len(inc.Lines)-1] {
			audits <- l + "\n"
		}
	}
	switch mode {
	case 3: // cancel while the maintenance goroutine is delivering a timed-out event
		runToStepOrState(rc, func() bool { return len(audits) == 0 && loginSent.v }, -1, 1500)
		before := len(rec.Events)
		// advance to just before the time-out, then cancel at a taped step of the tick that evicts
		for i := 0; i < 30 && len(rec.Events) == before; i++ {
			time.Sleep(100 * time.Millisecond)
			step = t.Choose(14, "cancel.step3")
			n := 0
			rc.Sim.RunUntil(func() bool { n++; return n > step }, 5000)
			if len(rc.Sim.Ready()) > 0 {
				break // some task is in the middle of its work: cancel now
			}
		}
		rc.Sim.Count("cancel_during_maintenance_tick")
	case 5: // everything consumed; cancelled inside the time-out or after the burst has been released
		runToStepOrState(rc, func() bool { return res.v || (len(audits) == 0 && loginSent.v) }, -1, 1500)
		if t.Choose(2, "burst.after.timeout") == 1 {
			quietFor(rc, 3*time.Second)
		}
	case 0: // idle: everything consumed
		runToStepOrState(rc, func() bool { return len(audits) == 0 && loginSent.v }, -1, 3000)
		quietFor(rc, time.Duration(t.Choose(3, "idle.s"))*time.Second)
	case 1: // lines still queued
		step = t.Choose(25, "cancel.step")
		runToStepOrState(rc, func() bool { return false }, step, 0)
	case 4: // a producer that is not part of the cancelled group keeps the queue topped up
		runToStepOrState(rc, func() bool { return len(audits) == 0 && loginSent.v }, -1, 3000)
		rc.Sim.Spawn("world.feeder", func() {
			for !stopFeed.v {
				l := k.UserMsg("USER_START", "610", pid, 1000, true, 0).Lines[0] + "\n"
				c0, c1 := simrt.Send(audits).V(l), simrt.Recv(time.After(200*time.Millisecond))
				simrt.Select("world.feeder", false, c0, c1)
			}
		})
		step = t.Choose(300, "cancel.step4")
		runToStepOrState(rc, func() bool { return false }, step, 0)
		rc.Sim.Count("cancel_with_live_producer")
	default: // mid-push: somewhere while processing
		if t.Choose(2, "slow.sink") == 1 {
			// the event sink is slow: a delivery batch of the parser is still being written when
			// the cancellation arrives; Read waits for it, nothing is written after Read returned
			rec.SlowMs = 40 + t.Choose(110, "slow.sink.ms")
			slowSink = true
			rc.Sim.Count("c13.slow_sink")
		}
		step = 10 + t.Choose(200, "cancel.step2")
		runToStepOrState(rc, func() bool { return false }, step, 600)
	}
	qAtCancel := len(audits)
	if qAtCancel > 0 {
		rc.Sim.Count("cancel_with_lines_queued")
	}
	if byDeadline && !res.v && mode != 4 {
		// let the deadline pass instead of cancelling
		for rc.SimNow() < deadlineAfter && !res.v {
			rc.Sim.RunUntil(func() bool { return res.v }, 50000)
			time.Sleep(500 * time.Millisecond)
		}
		rc.Sim.Count("ctx.deadline")
	} else {
		cancel()
		rc.Sim.Count("ctx.cancel")
	}
	bound := time.Second
	if slowSink {
		// whatever is being written when the cancellation arrives (a delivery batch, the flush of
		// a hold queue) is finished first: at most one write per line of the stream
		bound += time.Duration((len(lines)+4)*rec.SlowMs) * time.Millisecond
	}
	ok, why := settleAfterCancel(rc, func() bool { return res.v }, bound)
	rc.CaseKey(mode, queued, step, byDeadline, rec.SlowMs)
	rc.R.NonTrivial = true
	rc.R.Sample = map[string]any{"worker": "auditd.Read", "state": []string{"idle", "lines-queued", "mid-push", "maintenance-flush", "live-producer", "failure-burst"}[mode], "lines": len(lines), "queued_at_cancel": qAtCancel, "cancel_at_step": step, "returned": res.v, "err": fmt.Sprint(res.err)}
	if !ok {
		rc.Fail("C13", "no-return-read", "auditd.Read did not return after cancellation (%s): %v", why, rc.Sim.Live())
		return
	}
	evAtReturn := len(rec.Events)
	qAtReturn := len(audits)
	stopFeed.set(nil)
	// more input available: a record for the bound session and a login nobody should take
	for _, l := range GenAction(t, k, "610", pid, 1000).Lines {
		select {
		case audits <- l + "\n":
		default:
		}
	}
	took := &counterBox{}
	rc.Sim.Spawn("world.login2", func() {
		select {
		case logins <- MakeRUL(GenLogin(t, pid+1, 2), time.Now()):
			took.inc()
		case <-time.After(8 * time.Second):
		}
	})
	quietFor(rc, 10*time.Second)
	switch {
	case len(rec.Events) != evAtReturn:
		rc.Fail("C13", "delivery-after-return", "%d events written after auditd.Read returned (%d lines were queued at return)", len(rec.Events)-evAtReturn, qAtReturn)
	case took.n > 0:
		rc.Fail("C13", "delivery-after-return", "a login was taken from the channel after auditd.Read returned")
	}
}

// ---- the assembled daemon: cancel at a taped step under traffic ----

func scnC13L3(rc *RunCtx) {
	c := histCfg{MaxSessions: 3, MaxActions: 4, MaxTotalMs: 3000, SplitSweep: -1}
	h := genHistory(rc.Spec, c)
	if err := h.W.Prepare(); err != nil {
		rc.Abort("world: %v", err)
		return
	}
	sshdTL, auditTL := buildTimelines(h, 0)
	p := newPipeline(rc, 3, h, sshdTL, auditTL)
	p.Knobs["auditLogChanBufSize"] = []int{10000, 1, 2, 8}[rc.Spec.Choose(4, "knob.chan")]
	p.Knobs["bufio"] = []int{4096, 16, 64}[rc.Spec.Choose(3, "knob.bufio")]
	p.DebugLog = rc.Spec.Choose(3, "log.level") == 2
	pol := pipelinePolicy(rc)
	if err := p.Start(); err != nil {
		rc.Abort("start: %v", err)
		return
	}
	step := rc.Spec.Choose(400, "cancel.step")
	n := 0
	p.Run(func() bool { n++; return n > step }, 5*time.Second, 100*time.Millisecond, 100000)
	running := !p.Returned
	writesAtCancel := len(p.disk.Writes)
	p.cancel()
	rc.Sim.Count("ctx.cancel")
	ok, why := settleAfterCancel(rc, func() bool { return p.Returned }, time.Second)
	rc.CaseKey(h.caseKey(), step)
	rc.R.NonTrivial = running && step > 10
	rc.R.Sample = sampleOf(h, map[string]any{"worker": "cmd.RunNamedPipe (all workers)", "cancel_at_step": step, "policy": pol, "writes_at_cancel": writesAtCancel, "returned": p.Returned, "err": fmt.Sprint(p.RetErr), "knobs": p.Knobs})
	rc.Cleanup(func() { p.teardown() })
	if !ok {
		rc.Fail("C13", "no-return-daemon", "the assembled daemon did not return after cancellation (%s) at step %d: %v", why, step, rc.Sim.Live())
		return
	}
	// input keeps coming on both pipes: nothing may be written any more
	writesAtReturn := len(p.disk.Writes)
	k := NewKaudit()
	w1, w2 := p.sshdPipe.OpenWriter(), p.auditPipe.OpenWriter()
	rc.Sim.Spawn("world.late", func() {
		w1.Write([]byte(GenLogin(rc.Spec, 9100, 50).Line(false)))
		w2.Write([]byte(k.Login("990", 9100, 1000).Lines[0] + "\n"))
	})
	quietFor(rc, 10*time.Second)
	if len(p.disk.Writes) != writesAtReturn {
		rc.Fail("C13", "delivery-after-return", "%d events written to the output after the daemon had returned", len(p.disk.Writes)-writesAtReturn)
	}
}
