package verifsim

import (
	"context"
	"fmt"
	"os"
	"strings"
	"syscall"
	"time"

	"github.com/prometheus/client_golang/prometheus"

	"github.com/metal-toolbox/audito-maldito/cmd"
	"github.com/metal-toolbox/audito-maldito/internal/health"
	"github.com/metal-toolbox/audito-maldito/internal/simrt"
)

// C08: fail-stop. The assembled daemon (cmd.RunNamedPipe on simulated FIFOs and output)
// must return, with a non-nil error for failures, within a bounded simulated time after
// any worker failure or cancellation (the stand-in for SIGTERM/SIGINT), also while the
// audit stream is saturated.

var c08Causes = []string{
	"sshd-pipe-eof", "audit-pipe-eof", "sshd-pipe-eio", "audit-pipe-eio", "malformed-audit-line",
	"write-error-userlogin", "write-error-useraction", "write-error-flush",
	"sshd-path-not-a-pipe", "audit-path-not-a-pipe", "sshd-path-missing", "audit-path-missing",
	"cancel", "invalid-login-pid0",
}
var c08Loads = []string{"idle", "mid-traffic", "saturated", "sustained", "other-pipe-without-writer"}

func init() {
	register(&propDef{
		ID: "C08", Level: "fault_enumeration",
		Families: []family{
			{Name: "cause-x-load", Fn: scnC08, Weight: 1, Group: len(c08Causes) * len(c08Loads)},
		},
		Rule: "matrix cause (14: EOF / EIO on either pipe, malformed audit line, output write error on a UserLogin / a UserAction / a hold-queue flush, either input path not a pipe (a regular file, or the character device /dev/zero) or missing, " +
			"cancellation as stand-in for SIGTERM/SIGINT, invalid login) x load (idle; mid-traffic, in a third of the runs after a short session whose records all preceded its login line; saturated = the line consumer is starved until the internal buffer is full, capacities {1,2,8,64,10000}, and the audit writer " +
			"keeps feeding after the fault; sustained = the audit writer never pauses; other-pipe-without-writer = the pipe not involved in the cause has no writer attached yet) enumerated within each group of runs, " +
			"x log level {info, debug} x audit-metrics worker {off, on} x schedule policy x fault instant x (taped) one more accepted login right after the fault; after the fault a fair schedule (run-to-block, or uniformly random turns with the line consumer as the slow side under load) " +
			"with the clock advancing at quiescence: RunNamedPipe must return within 5 simulated seconds and 50000 steps (plus 100 steps per record that may be queued in front of a malformed record), with a non-nil error for failure causes; runs in which the injected write failure never happened are not judged; " +
			"non-trivial = the fault fired while the daemon was running (and, for saturated, with the buffer full); distinct = distinct (cause, load, capacity, fault instant, schedule hash)",
		Quick: 70 * 40, Thorough: 70 * 2500,
	})
}

func scnC08(rc *RunCtx) {
	t := rc.Spec
	cause := c08Causes[rc.Sub%len(c08Causes)]
	load := c08Loads[(rc.Sub/len(c08Causes))%len(c08Loads)]
	sp, ap, regular, err := fifoPaths()
	if err != nil {
		rc.Abort("fifo: %v", err)
		return
	}
	capacity := []int{1, 2, 8, 64, 10000}[t.Choose(5, "capacity")]
	if load == "saturated" && capacity == 10000 && rc.Tier == "quick" && rc.Index%5 != 0 {
		capacity = 64
	}
	rc.Sim.Knobs["auditLogChanBufSize"] = capacity
	rc.Sim.Knobs["bufio"] = []int{4096, 64}[t.Choose(2, "bufio")]
	sshdPath, auditPath := sp, ap
	if strings.HasSuffix(cause, "-not-a-pipe") && t.Choose(3, "notpipe.kind") == 2 {
		// neither a pipe nor a regular file: a character device whose reads never end
		if fi, err := os.Stat("/dev/zero"); err == nil && fi.Mode()&os.ModeCharDevice != 0 {
			regular = "/dev/zero"
			rc.Sim.Count("c08.path_is_char_device")
		}
	}
	switch cause {
	case "sshd-path-not-a-pipe":
		sshdPath = regular
	case "audit-path-not-a-pipe":
		auditPath = regular
	case "sshd-path-missing":
		sshdPath = sp + ".does-not-exist"
	case "audit-path-missing":
		auditPath = ap + ".does-not-exist"
	}
	sshdPipe := rc.Sim.AddPipe(sshdPath)
	auditPipe := rc.Sim.AddPipe(auditPath)
	disk := rc.Sim.NewDisk("/sim/out.log")
	reg := prometheus.NewRegistry()
	prometheus.DefaultRegisterer, prometheus.DefaultGatherer = reg, reg
	os.Setenv("NODE_NAME", "sim-node")
	ctx, cancel := context.WithCancel(context.Background())
	rc.Cleanup(cancel)
	ret := &doneFlag{}
	args := []string{"audito-maldito", "-sshd-pipe-path", sshdPath, "-auditd-pipe-path", auditPath, "-app-events-output", disk.Path}
	if t.Choose(4, "audit.metrics") == 3 {
		// the optional fifth worker (audit-log metrics, polling every 100 ms)
		args = append(args, "-audit-metrics", "-audit-seconds-interval", "100ms")
		rc.Sim.Count("c08.audit_metrics_worker")
	}
	if t.Choose(3, "log.level") == 2 {
		// the daemon's own verbosity must not matter for how it stops
		args = append(args, "-log-level", "debug")
		rc.Sim.Count("c08.log_level_debug")
	}
	rc.Sim.Spawn("daemon", func() { ret.set(cmd.RunNamedPipe(ctx, args, health.NewHealth(), quietZap())) })
	pol := pipelinePolicy(rc)

	k := NewKaudit()
	var sw, aw *simrt.PipeWriter
	noWriter := "" // which pipe has no writer attached yet (rsyslog / auditd plugin not started)
	if load == "other-pipe-without-writer" {
		// the pipe that is not involved in the failure cause has no writer yet
		noWriter = "sshd"
		if strings.HasPrefix(cause, "sshd-") || cause == "write-error-userlogin" || cause == "invalid-login-pid0" || cause == "write-error-flush" {
			noWriter = "audit"
		}
		if cause == "write-error-useraction" || cause == "write-error-flush" {
			noWriter = "" // these causes need both streams
		}
	}
	if noWriter != "sshd" {
		sw = sshdPipe.OpenWriter()
	}
	if noWriter != "audit" {
		aw = auditPipe.OpenWriter()
	}
	rc.Cleanup(func() {
		if sw != nil {
			sw.Close()
		}
		if aw != nil {
			aw.Close()
		}
	})
	stopFeed := &doneFlag{}
	pid := 7000 + t.Choose(100, "pid")
	login := GenLogin(t, pid, 1)
	sesOpen := false
	writeSession := func() {
		if sw == nil || aw == nil {
			return
		}
		// one correlated session: login line, LOGIN record, an action
		sw.Write([]byte(login.Line(false)))
		aw.Write([]byte(k.Login("640", pid, 1000).Lines[0] + "\n"))
		aw.Write([]byte(strings.Join(GenAction(t, k, "640", pid, 1000).Lines, "\n") + "\n"))
		sesOpen = true
	}
	configCause := strings.Contains(cause, "-path-")
	// ---- load ----
	saturatedOK := false
	var feeder *doneFlag
	switch load {
	case "mid-traffic":
		if !configCause && sw != nil && aw != nil && t.Choose(3, "short.session") == 2 {
			// an earlier short session: all its records, up to the credential disposal, are read
			// before its sshd line arrives (held, then released and forgotten in one go)
			rc.Sim.Count("c08.short_session_before_fault")
			sp := pid + 500
			sl := GenLogin(t, sp, 2)
			for _, e := range []*KEvent{k.Login("630", sp, 1001), GenAction(t, k, "630", sp, 1001), k.UserMsg("CRED_DISP", "630", sp, 1001, true, 0)} {
				aw.Write([]byte(strings.Join(e.Lines, "\n") + "\n"))
			}
			runToStepOrState(rc, func() bool { return ret.v || (auditPipe.BlockedRead && auditPipe.Buffered() == 0) }, -1, 3000)
			sw.Write([]byte(sl.Line(false)))
			runToStepOrState(rc, func() bool { return ret.v || (sshdPipe.BlockedRead && sshdPipe.Buffered() == 0) }, -1, 1000)
		}
		if !configCause {
			writeSession()
		}
		n := t.Choose(6, "bg")
		for i := 0; i < n; i++ {
			aw.Write([]byte(strings.Join(GenAction(t, k, "4294967295", 300+i, 0).Lines, "\n") + "\n"))
		}
		runToStepOrState(rc, func() bool { return ret.v }, t.Choose(150, "warm.steps"), 0)
	case "saturated":
		if !configCause && strings.HasPrefix(cause, "write-error") {
			writeSession()
			runToStepOrState(rc, func() bool { return ret.v || (auditPipe.BlockedRead && sshdPipe.BlockedRead) }, -1, 500)
		}
		// starve the consumer of the internal line buffer and keep the audit pipe non-empty
		rc.Sim.Frozen = func(name string) bool {
			return strings.Contains(name, "processors/auditd/auditd.go") && strings.Contains(name, ":go#")
		}
		feeder = &doneFlag{}
		nlines := capacity + 50
		rc.Sim.Spawn("world.audit-load", func() {
			line := []byte(k.UserMsg("USER_START", "4294967295", 999, 0, true, 0).Lines[0] + "\n")
			var batch []byte
			for i := 0; i < nlines; i++ {
				batch = append(batch, line...)
				if len(batch) > 32000 || i == nlines-1 {
					aw.Write(batch)
					batch = batch[:0]
				}
			}
			feeder.set(nil)
			// ... and the stream does not stop afterwards either (sustained load)
			var more []byte
			for i := 0; i < 20; i++ {
				more = append(more, line...)
			}
			for i := 0; i < 100000 && !stopFeed.v; i++ {
				simrt.Point("world.sustained")
				if _, err := aw.Write(more); err != nil {
					return
				}
			}
		})
		saturated := func() bool {
			for _, l := range rc.Sim.Live() {
				if strings.Contains(l, "blocked-after@") && strings.Contains(l, "auditlogingester.go") {
					return true
				}
			}
			return false
		}
		runToStepOrState(rc, func() bool { return ret.v || saturated() }, -1, 1000)
		saturatedOK = saturated()
		if saturatedOK {
			rc.Sim.Count("chan_full_at_fault")
		}
	case "sustained":
		// the audit stream never pauses: a writer keeps the pipe non-empty for the whole run
		// (also after the fault), the consumer is not starved
		if !configCause && strings.HasPrefix(cause, "write-error") {
			writeSession()
			runToStepOrState(rc, func() bool { return ret.v || (auditPipe.BlockedRead && sshdPipe.BlockedRead) }, -1, 500)
		}
		rc.Sim.Spawn("world.audit-sustained", func() {
			line := []byte(k.UserMsg("USER_START", "4294967295", 999, 0, true, 0).Lines[0] + "\n")
			for i := 0; i < 200000 && !stopFeed.v; i++ {
				simrt.Point("world.sustained")
				if _, err := aw.Write(line); err != nil {
					return
				}
			}
		})
		rc.Cleanup(func() { stopFeed.set(nil) })
		runToStepOrState(rc, func() bool { return ret.v }, 200+t.Choose(400, "warm.steps"), 0)
		saturatedOK = true
	default:
		runToStepOrState(rc, func() bool {
			return ret.v || ((aw == nil || auditPipe.BlockedRead) && (sw == nil || sshdPipe.BlockedRead) && (auditPipe.BlockedOpen || sshdPipe.BlockedOpen || noWriter == ""))
		}, t.Choose(60, "idle.steps"), 300)
		if noWriter != "" && (auditPipe.BlockedOpen || sshdPipe.BlockedOpen) {
			rc.Sim.Count("fault_while_waiting_for_writer")
		}
	}
	runningAtFault := !ret.v
	// ---- fault ----
	expectErr := cause != "cancel"
	switch cause {
	case "sshd-pipe-eof":
		sw.Close()
	case "audit-pipe-eof":
		if load == "saturated" {
			// EOF is only seen once the pipe is drained: the consumer resumes
			rc.Sim.Frozen = nil
		}
		stopFeed.set(nil) // the writer is gone: nothing feeds the pipe any more
		aw.Close()
	case "sshd-pipe-eio":
		sshdPipe.InjectReadError(syscall.EIO)
	case "audit-pipe-eio":
		auditPipe.InjectReadError(syscall.EIO)
	case "malformed-audit-line":
		rc.Sim.Frozen = nil
		// (a record that cannot be parsed, whatever it starts with)
		aw.Write([]byte([]string{"type=SYSCALL this is not an audit record", "type=SYSCALL this is not an audit record",
			"type=UNKNOWN[1420] msg=audit(16738860", "type=UNKNOWN[14xx] msg=audit(1673886030.123:77): x=1", "audit(1673886030.123:77): no type"}[t.Choose(5, "bad.line")] + "\n"))
		rc.Sim.Count("line.malformed_audit")
	case "write-error-userlogin":
		disk.FailAt, disk.FailAll = disk.Calls+1, true
		sw.Write([]byte(GenLogin(t, pid+1, 2).Line(false)))
	case "write-error-useraction":
		rc.Sim.Frozen = nil
		if !sesOpen {
			writeSession()
			runToStepOrState(rc, func() bool { return ret.v || len(disk.Writes) >= 3 }, -1, 1000)
		}
		disk.FailAt, disk.FailAll = disk.Calls+1, true
		aw.Write([]byte(strings.Join(GenAction(t, k, "640", pid, 1000).Lines, "\n") + "\n"))
	case "write-error-flush":
		rc.Sim.Frozen = nil
		// records first (held), then the login whose arrival flushes them
		p2 := pid + 2
		aw.Write([]byte(k.Login("641", p2, 1001).Lines[0] + "\n"))
		aw.Write([]byte(strings.Join(GenAction(t, k, "641", p2, 1001).Lines, "\n") + "\n"))
		runToStepOrState(rc, func() bool { return ret.v }, 300, 1000)
		l2 := GenLogin(t, p2, 3)
		// the UserLogin itself is written, the flush that follows fails
		disk.FailAt, disk.FailAll = disk.Calls+2, true
		sw.Write([]byte(l2.Line(false)))
	case "cancel":
		cancel()
		rc.Sim.Count("ctx.cancel")
	case "invalid-login-pid0":
		l0 := GenLogin(t, 0, 4)
		sw.Write([]byte(l0.Line(false)))
		rc.Sim.Count("login.invalid.pid0")
	default:
		// configuration causes fire at start-up
	}
	// traffic does not stop because something failed: another accepted login arrives on the
	// sshd pipe right after the fault (its hand-off finds a correlator that may be gone)
	if sw != nil && cause != "sshd-pipe-eof" && t.Choose(2, "post.fault.login") == 1 {
		sw.Write([]byte(GenLogin(t, pid+7, 9).Line(false)))
		rc.Sim.Count("c08.login_after_fault")
	}
	// ---- settle: fair schedule, clock advances at quiescence only ----
	rc.Sim.Policy = simrt.PolicyRunToBlock
	rc.Sim.Frozen = nil
	if load == "saturated" || load == "sustained" {
		// under sustained load every task gets its turns (uniformly random schedule) and the
		// consumer of the line buffer stays the slow side, as it is under real saturation
		rc.Sim.Policy = simrt.PolicyRandom
		rc.Sim.Slow = func(name string) int {
			if strings.Contains(name, "processors/auditd/auditd.go") && strings.Contains(name, ":go#") {
				return 6
			}
			return 1
		}
	}
	t0 := rc.SimNow()
	steps0 := rc.Sim.Steps
	returned := false
	whyNot := ""
	// a malformed record is reached only after everything queued in front of it has been
	// processed: the step bound grows with the backlog the load has built up
	stepBound := 50000
	if cause == "malformed-audit-line" && (load == "saturated" || load == "sustained") {
		stepBound += 100 * (capacity + 1000)
	}
	for {
		why := rc.Sim.RunUntil(func() bool { return ret.v }, stepBound)
		if why == "stop" {
			returned = true
			break
		}
		if why == "budget" || rc.Sim.Steps-steps0 > stepBound {
			whyNot = fmt.Sprintf("more than %d scheduler steps", stepBound)
			break
		}
		if rc.SimNow()-t0 >= 5*time.Second {
			whyNot = "5 simulated seconds"
			break
		}
		time.Sleep(100 * time.Millisecond)
	}
	rc.CaseKey(cause, load, capacity)
	stopFeed.set(nil)
	rc.R.NonTrivial = runningAtFault && (load != "saturated" || saturatedOK || configCause)
	rc.R.Sample = map[string]any{"cause": cause, "load": load, "buffer_capacity": capacity, "policy": pol, "buffer_full_at_fault": saturatedOK,
		"returned": returned, "error": fmt.Sprint(ret.err), "events_written": len(disk.Writes), "simulated_ms_to_return": (rc.SimNow() - t0).Milliseconds()}
	rc.Sim.Count("c08.cause." + cause)
	if strings.HasPrefix(cause, "write-error") && (disk.FailAt == 0 || disk.Calls < disk.FailAt) {
		// the write that was to fail never happened (e.g. the events were not correlated):
		// the failure cause did not occur, so there is nothing to judge in this run
		rc.Sim.Count("c08.fault_not_fired")
		rc.R.NonTrivial = false
		return
	}
	if !returned {
		rc.Fail("C08", "daemon-keeps-running", "cause %s under load %s (buffer capacity %d, full=%v): RunNamedPipe did not return within %s after the fault; still alive: %v",
			cause, load, capacity, saturatedOK, whyNot, rc.Sim.Live())
		return
	}
	if expectErr && ret.err == nil {
		rc.Fail("C08", "nil-error-on-failure", "cause %s under load %s: RunNamedPipe returned nil (exit status 0) after a worker failure", cause, load)
	}
}
