package verifsim

import (
	"encoding/json"
	"fmt"
	"hash/fnv"
	"io"
	"os"
	"runtime/debug"
	"sort"
	"strings"
	"testing"
	"testing/synctest"
	"time"

	"github.com/google/uuid"
	"go.uber.org/zap"
	"go.uber.org/zap/zapcore"

	"github.com/metal-toolbox/audito-maldito/internal/simrt"
	"github.com/metal-toolbox/audito-maldito/processors/auditd"
	"github.com/metal-toolbox/audito-maldito/processors/sshd"
)

// Violation is one failed oracle clause.
type Violation struct {
	Prop  string `json:"property"`
	Class string `json:"class"` // oracle clause id; shrinking preserves (Prop, Class)
	Msg   string `json:"msg"`
}

// RunSpec identifies one run: scenario family + run index (+ optional replay tape).
type RunSpec struct {
	Prop   string `json:"property"`
	Family string `json:"family"`
	Seed   uint64 `json:"seed"`  // base seed (VERIF_SEED)
	Index  int    `json:"index"` // run index
	Tier   string `json:"tier"`
	Spec   []int  `json:"spec_tape,omitempty"` // replay: scenario generation decisions
	Run    []int  `json:"run_tape,omitempty"`  // replay: schedule and runtime decisions
	Replay bool   `json:"replay,omitempty"`
}

// Result of one run.
type Result struct {
	RunSpec
	Violations []Violation    `json:"violations,omitempty"`
	NonTrivial bool           `json:"nontrivial"`
	CaseHash   string         `json:"case_hash"`  // scenario spec hash
	SchedHash  string         `json:"sched_hash"` // schedule hash
	StateHash  []string       `json:"state_hashes,omitempty"`
	Stats      map[string]int `json:"stats,omitempty"`
	Steps      int            `json:"steps"`
	SimTimeMs  int64          `json:"sim_ms"`
	Digest     string         `json:"digest"`
	Abort      string         `json:"abort,omitempty"` // harness trouble (exit 2 class)
	Sample     any            `json:"sample,omitempty"`
	Trace      []string       `json:"trace,omitempty"`
	SpecOut    []int          `json:"spec_out,omitempty"`
	RunOut     []int          `json:"run_out,omitempty"`
	WallUs     int64          `json:"wall_us"`
	Leaked     []string       `json:"leaked,omitempty"`
}

// RunCtx is what a scenario sees.
type RunCtx struct {
	T       *testing.T
	Spec    *simrt.Tape // scenario generation decisions
	Sim     *simrt.Sim  // schedule + runtime decisions (Sim.Tape)
	R       *Result
	Tier    string
	Index   int
	Sub     int // index within the group of runs sharing one scenario spec
	Group   int
	Start   time.Time
	states  map[string]struct{}
	caseH   []string
	cleanup []func()
}

func (rc *RunCtx) Fail(prop, class, format string, a ...any) {
	rc.R.Violations = append(rc.R.Violations, Violation{prop, class, fmt.Sprintf(format, a...)})
}

func (rc *RunCtx) Failed() bool { return len(rc.R.Violations) > 0 }

func (rc *RunCtx) Abort(format string, a ...any) {
	if rc.R.Abort == "" {
		rc.R.Abort = fmt.Sprintf(format, a...)
	}
}

// CaseKey adds a component to the scenario-spec hash (what makes a case distinct).
func (rc *RunCtx) CaseKey(parts ...any) {
	rc.caseH = append(rc.caseH, fmt.Sprint(parts...))
}

func (rc *RunCtx) State(s string) { rc.states[s] = struct{}{} }

func (rc *RunCtx) Cleanup(f func()) { rc.cleanup = append(rc.cleanup, f) }

func (rc *RunCtx) SimNow() time.Duration { return time.Since(rc.Start) }

type scenarioFn func(rc *RunCtx)

type family struct {
	Name   string
	Fn     scenarioFn
	Weight int // share of run indices
	Group  int // runs per scenario spec (the spec tape is seeded by index/Group); 0 = 1
	// Quota caps the share of a tier's runs (0: none)
}

type propDef struct {
	ID                      string
	Level                   string
	Families                []family
	Rule                    string // non-triviality / distinctness rule, for evidence
	Quick                   int    // number of runs in quick tier
	Thorough                int
	Race                    bool // also run under the race detector (scheduler hidden from it)
	RaceQuick, RaceThorough int
}

// components lists what ran as real code and what as a stub (copied into every evidence file).
var components = map[string]any{
	"real": []string{"sessiontracker", "internal/common GenericSyncMap", "processors/auditd (Read, parseAuditLogs, maintain loop, reassembler callback)",
		"processors/sshd", "ingesters/namedpipe, syslog, auditlog", "cmd.RunNamedPipe (errgroup wiring)", "internal/health",
		"processors/auditd/dirreader", "go-libaudit auparse/aucoalesce/Reassembler", "auditevent EventWriter + encoding/json", "context, errgroup, zap (nop sink), prometheus client"},
	"stub": []string{"goroutine scheduler (cooperative, seeded; simrt)", "clock and timers (testing/synctest fake clock)", "kernel FIFOs (SimPipe)",
		"events output file with O_APPEND semantics (SimDisk)", "audit log directory + fsnotify (SimFS/SimWatcher)", "sshd, kernel audit subsystem, rsyslog (world models printing their log formats)",
		"uuid source (seeded)", "map iteration order and select choice (taped)"},
	"outside": []string{"main.go signal handling and exit status", "the linked binary", "kernel FIFO/O_APPEND implementations", "HTTP listener", "real fsnotify"},
}

var assumptions = []string{
	"Go 1.26.8 runtime and testing/synctest semantics (fake clock, durable blocking)",
	"simgen rewrite rules are semantics-preserving (locks, channel ops, select, go, map range, I/O seams); interleavings are explored at synchronisation-operation granularity",
	"SimPipe/SimDisk/SimFS model the kernel interfaces they replace (one write(2) on an O_APPEND file is one atomic append; FIFO read/open/close semantics)",
	"world models print sshd/auditd log formats as quoted in the repository sources and test data",
	"sampling, not enumeration: a clean batch is evidence, not proof",
}

var props = map[string]*propDef{}

func register(p *propDef) { props[p.ID] = p }

func hashStr(parts ...string) string {
	h := fnv.New64a()
	for _, p := range parts {
		h.Write([]byte(p))
		h.Write([]byte{0})
	}
	return fmt.Sprintf("%016x", h.Sum64())
}

// align is the least common multiple of the families' group sizes.
func (p *propDef) align() int {
	a := 1
	for _, f := range p.Families {
		if f.Group > 1 {
			g, x, y := f.Group, a, f.Group
			for y != 0 {
				x, y = y, x%y
			}
			a = a / x * g
		}
	}
	return a
}

// familyFor maps a run index to a family (weighted round robin over blocks, deterministic).
func (p *propDef) familyFor(index int) family {
	tot := 0
	for _, f := range p.Families {
		tot += f.Weight
	}
	// whole blocks of run indices go to one family, so that a family that enumerates something
	// within each group of runs (Sub = index mod Group) sees every member of the group
	k := (index / p.align()) % tot
	for _, f := range p.Families {
		if k < f.Weight {
			return f
		}
		k -= f.Weight
	}
	return p.Families[0]
}

func (p *propDef) familyByName(n string) (family, bool) {
	for _, f := range p.Families {
		if f.Name == n {
			return f, true
		}
	}
	return family{}, false
}

var nopLogger = zap.NewNop().Sugar()

// debugLogger has every level enabled and discards what it is given.
var debugLogger = zap.New(zapcore.NewCore(zapcore.NewJSONEncoder(zap.NewProductionEncoderConfig()), zapcore.AddSync(io.Discard), zapcore.DebugLevel)).Sugar()

// runLogger is the logger handed to repository code constructed during the current run.
var runLogger = nopLogger

// execRun executes one run inside a fresh synctest bubble. The run happens on its own
// goroutine: when the race detector has reported something the testing package ends the
// calling goroutine (runtime.Goexit) after the bubble, and the worker must go on.
func execRun(t *testing.T, rs RunSpec, keepTrace bool) *Result {
	ch := make(chan *Result, 1)
	go func() {
		var res *Result
		defer func() {
			if res == nil {
				res = &Result{RunSpec: rs, Abort: "run goroutine ended without a result"}
			}
			ch <- res
		}()
		res = &Result{RunSpec: rs}
		execRunInner(t, rs, keepTrace, res)
	}()
	if workerHung {
		return &Result{RunSpec: rs, Abort: "not executed: an earlier run of this worker process never finished"}
	}
	// real-time watchdog: a goroutine of the code under test that blocks outside the simulator's
	// seams (for example on a lock inside a dependency that another goroutine holds across a
	// simulated write) keeps the bubble from ever becoming quiescent; such a run cannot be
	// continued or unwound, so the worker reports it and stops
	tm := time.NewTimer(RunWallLimit)
	defer tm.Stop()
	select {
	case r := <-ch:
		return r
	case <-tm.C:
		workerHung = true
		return &Result{RunSpec: rs, Abort: fmt.Sprintf("run did not finish within %s of real time (watchdog): a goroutine of the code under test is blocked outside the simulator's seams", RunWallLimit)}
	}
}

// RunWallLimit bounds the real time of one run; workerHung is set once a run exceeded it.
var (
	RunWallLimit = runWallLimitFromEnv()
	workerHung   bool
)

func runWallLimitFromEnv() time.Duration {
	if d, err := time.ParseDuration(os.Getenv("VSIM_RUN_WALL")); err == nil && d > 0 {
		return d
	}
	return 150 * time.Second
}

func execRunInner(t *testing.T, rs RunSpec, keepTrace bool, res *Result) {
	p := props[rs.Prop]
	if p == nil {
		res.Abort = "unknown property " + rs.Prop
		return
	}
	var fam family
	if rs.Family != "" {
		f, ok := p.familyByName(rs.Family)
		if !ok {
			res.Abort = "unknown family " + rs.Family
			return
		}
		fam = f
	} else {
		fam = p.familyFor(rs.Index)
	}
	res.Family = fam.Name
	runSeed := simrt.Mix(simrt.Mix(rs.Seed^hash64(rs.Prop+"/"+fam.Name)) + uint64(rs.Index))
	grp := fam.Group
	if grp <= 0 {
		grp = 1
	}
	specSeed := simrt.Mix(simrt.Mix(rs.Seed^hash64(rs.Prop+"/"+fam.Name+"/spec")) + uint64(rs.Index/grp))
	var spec, run *simrt.Tape
	if rs.Replay {
		spec = simrt.NewReplayTape(specSeed, rs.Spec)
		run = simrt.NewReplayTape(runSeed^0x5555, rs.Run)
	} else {
		spec = simrt.NewTape(specSeed)
		run = simrt.NewTape(runSeed ^ 0x5555)
	}
	wall0 := time.Now()
	defer func() { res.WallUs = time.Since(wall0).Microseconds() }()
	defer func() {
		// the bubble panics when goroutines of the code under test are still (durably)
		// blocked after the scenario returned; that is recorded as a leak, not a failure
		if r := recover(); r != nil {
			msg := fmt.Sprint(r)
			if strings.Contains(msg, "deadlock") {
				res.Leaked = append(res.Leaked, "bubble: "+msg)
				return
			}
			res.Abort = "harness panic: " + msg + "\n" + string(debug.Stack())
		}
	}()
	synctest.Test(t, func(t *testing.T) {
		sim := simrt.New(run)
		sim.Quiesce = synctest.Wait
		sim.KeepTrace = keepTrace
		run.KeepLabels = keepTrace
		spec.KeepLabels = keepTrace
		sim.Install()
		defer sim.Uninstall()
		uuid.SetRand(simrt.NewRandReader(runSeed))
		// one run in three has the repository's loggers at debug level (output discarded), one run
		// in four may preempt a task that holds a lock right before it releases it
		// (decided by a hash of the run index, so that neither correlates with a family's groups)
		hx := uint64(rs.Index)*0x9e3779b97f4a7c15 + 0x7f4a7c15
		hx ^= hx >> 29
		runLogger = nopLogger
		if (hx>>8)%3 == 2 {
			runLogger = debugLogger
		}
		sim.HeldPoints = (hx>>20)%4 == 3
		auditd.SetLogger(runLogger)
		sshd.SetLogger(runLogger)
		rc := &RunCtx{T: t, Spec: spec, Sim: sim, R: res, Tier: rs.Tier, Index: rs.Index, Start: time.Now(),
			states: map[string]struct{}{}, Sub: rs.Index % grp, Group: grp}
		func() {
			defer func() {
				if r := recover(); r != nil {
					if d, ok := r.(simrt.InlineDeadlock); ok {
						// code under test, executed sequentially by the scenario, took a lock it
						// already holds: in the daemon that goroutine blocks forever
						res.Violations = append(res.Violations, Violation{Prop: rs.Prop, Class: "deadlock", Msg: "a sequence of calls into the code under test deadlocks on its own: " + d.Error()})
						return
					}
					res.Abort = fmt.Sprintf("scenario panic: %v\n%s", r, debug.Stack())
				}
			}()
			fam.Fn(rc)
		}()
		// the event log ends here: during teardown tasks run freely (and concurrently), so
		// the order of their exit records is not part of the deterministic run
		sim.Q()
		res.Digest = sim.Digest()
		panicsInRun := len(sim.Panics)
		if keepTrace {
			res.Trace = append([]string(nil), sim.Trace...)
		}
		// teardown: let everything run freely, run cleanups, wait for quiescence
		sim.Drain()
		for i := len(rc.cleanup) - 1; i >= 0; i-- {
			rc.cleanup[i]()
		}
		sim.Q()
		for _, l := range sim.Live() {
			res.Leaked = append(res.Leaked, l)
		}
		for i, pr := range sim.Panics {
			res.Stats = addStat(res.Stats, "panic.task", 1)
			if i >= panicsInRun || len(res.Violations) > 0 || res.Abort != "" {
				continue
			}
			top := pr.Stack
			if len(top) > 1200 {
				top = top[:1200]
			}
			if strings.HasPrefix(pr.Task, "world.") {
				// a task of the simulated world, not code under test
				res.Abort = fmt.Sprintf("world task %s panicked: %s\n%s", pr.Task, pr.Value, top)
				continue
			}
			// a panic inside a goroutine of the code under test that no scenario oracle claimed:
			// the daemon process would have died at this point, whatever the property
			res.Violations = append(res.Violations, Violation{Prop: rs.Prop, Class: "panic", Msg: fmt.Sprintf("goroutine %s of the code under test panicked (the daemon process dies): %s\n%s", pr.Task, pr.Value, top)})
		}
		res.Steps = sim.Steps
		res.SimTimeMs = time.Since(rc.Start).Milliseconds()
		res.SchedHash = fmt.Sprintf("%016x", sim.SchedHash)
		res.CaseHash = hashStr(append([]string{fam.Name}, rc.caseH...)...)
		for s := range rc.states {
			res.StateHash = append(res.StateHash, s)
		}
		sort.Strings(res.StateHash)
		res.Stats = mergeStats(res.Stats, sim.StatsMap())
		res.Stats = addStat(res.Stats, "sched.preempt", sim.Preempts)
		res.SpecOut = spec.Out
		res.RunOut = run.Out
	})
}

func hash64(s string) uint64 {
	h := fnv.New64a()
	h.Write([]byte(s))
	return h.Sum64()
}

func addStat(m map[string]int, k string, v int) map[string]int {
	if v == 0 {
		return m
	}
	if m == nil {
		m = map[string]int{}
	}
	m[k] += v
	return m
}

func mergeStats(a, b map[string]int) map[string]int {
	for k, v := range b {
		a = addStat(a, k, v)
	}
	return a
}

// ---- shrinking ----

func sameClass(r *Result, prop, class string) bool {
	if r.Abort != "" {
		return false
	}
	for _, v := range r.Violations {
		if v.Prop == prop && v.Class == class {
			return true
		}
	}
	return false
}

// shrink minimises (spec tape, run tape) while the same violation class persists.
func shrink(t *testing.T, r *Result, budget int) *Result {
	if len(r.Violations) == 0 {
		return r
	}
	prop, class := r.Violations[0].Prop, r.Violations[0].Class
	best := r
	bs, br := append([]int{}, r.SpecOut...), append([]int{}, r.RunOut...)
	tries := 0
	try := func(s, rn []int) bool {
		if tries >= budget || workerHung {
			return false
		}
		tries++
		rs := best.RunSpec
		rs.Replay = true
		rs.Spec, rs.Run = s, rn
		rs.Family = best.Family
		nr := execRun(t, rs, false)
		if sameClass(nr, prop, class) {
			best = nr
			// normalise: what the run actually consumed
			bs, br = trimZeros(nr.SpecOut), trimZeros(nr.RunOut)
			return true
		}
		return false
	}
	// make sure the replay reproduces at all
	if !try(bs, br) {
		r.Abort = "replay of recorded tapes did not reproduce the violation (harness nondeterminism)"
		return r
	}
	improved := true
	for improved && tries < budget {
		improved = false
		// 1. zero the whole run tape (no preemptions, natural orders)
		if anyNonZero(br) && try(bs, nil) {
			improved = true
		}
		// 2. truncate tapes
		for _, which := range []int{1, 0} {
			for cut := 2; cut <= 16; cut *= 2 {
				cur := pick(which, bs, br)
				if len(cur) == 0 {
					break
				}
				n := len(cur) - len(cur)/cut
				if n == len(cur) {
					n = len(cur) - 1
				}
				nt := append([]int{}, cur[:n]...)
				if which == 0 && try(nt, br) || which == 1 && try(bs, nt) {
					improved = true
				}
			}
		}
		// 3. zero blocks, then single entries
		for _, which := range []int{0, 1} {
			for blk := 8; blk >= 1; blk /= 2 {
				cur := pick(which, bs, br)
				for i := 0; i < len(cur); i += blk {
					cur = pick(which, bs, br)
					if i >= len(cur) {
						break
					}
					nt := append([]int{}, cur...)
					ch := false
					for j := i; j < i+blk && j < len(nt); j++ {
						if nt[j] != 0 {
							nt[j] = 0
							ch = true
						}
					}
					if !ch {
						continue
					}
					if which == 0 && try(nt, br) || which == 1 && try(bs, nt) {
						improved = true
					}
				}
			}
		}
		// 4. delete single entries of the spec tape (drops one generated decision)
		for i := 0; i < len(bs) && tries < budget; i++ {
			nt := append(append([]int{}, bs[:i]...), bs[i+1:]...)
			if try(nt, br) {
				improved = true
				i--
			}
		}
		// 5. decrement entries
		for _, which := range []int{0, 1} {
			cur := pick(which, bs, br)
			for i := 0; i < len(cur) && tries < budget; i++ {
				cur = pick(which, bs, br)
				if i >= len(cur) || cur[i] <= 1 {
					continue
				}
				nt := append([]int{}, cur...)
				nt[i] = cur[i] / 2
				if which == 0 && try(nt, br) || which == 1 && try(bs, nt) {
					improved = true
				}
			}
		}
	}
	best.Stats = addStat(best.Stats, "shrink.tries", tries)
	return best
}

func pick(which int, a, b []int) []int {
	if which == 0 {
		return a
	}
	return b
}

func anyNonZero(a []int) bool {
	for _, v := range a {
		if v != 0 {
			return true
		}
	}
	return false
}

func trimZeros(a []int) []int {
	n := len(a)
	for n > 0 && a[n-1] == 0 {
		n--
	}
	return append([]int{}, a[:n]...)
}

// ReplayFile is what a VIOLATION line points to.
type ReplayFile struct {
	Property    string      `json:"property"`
	Family      string      `json:"family"`
	Seed        uint64      `json:"seed"`
	Index       int         `json:"index"`
	Tier        string      `json:"tier"`
	SpecTape    []int       `json:"spec_tape"`
	RunTape     []int       `json:"run_tape"`
	Class       string      `json:"class"`
	Violations  []Violation `json:"violations"`
	Sample      any         `json:"scenario"`
	Trace       []string    `json:"trace"`
	Fingerprint string      `json:"fingerprint"`
	TreeHash    string      `json:"repo_tree_hash,omitempty"`
	Note        string      `json:"note,omitempty"`
}

func writeJSON(path string, v any) error {
	b, err := json.MarshalIndent(v, "", " ")
	if err != nil {
		return err
	}
	return os.WriteFile(path, append(b, '\n'), 0o644)
}
