package verifsim

import (
	"context"
	"encoding/json"
	"errors"
	"fmt"
	"io"
	"strings"
	"time"

	"github.com/elastic/go-libaudit/v2/aucoalesce"
	"github.com/elastic/go-libaudit/v2/auparse"
	"github.com/google/uuid"
	"github.com/metal-toolbox/auditevent"
	"github.com/prometheus/client_golang/prometheus"

	"github.com/metal-toolbox/audito-maldito/ingesters/auditlog"
	"github.com/metal-toolbox/audito-maldito/ingesters/namedpipe"
	"github.com/metal-toolbox/audito-maldito/ingesters/syslog"
	"github.com/metal-toolbox/audito-maldito/internal/common"
	"github.com/metal-toolbox/audito-maldito/internal/health"
	"github.com/metal-toolbox/audito-maldito/internal/metrics"
	"github.com/metal-toolbox/audito-maldito/internal/simrt"
	"github.com/metal-toolbox/audito-maldito/processors/sshd"
)

// C07: a record delivered through the pipes is processed as if handed over directly.

func init() {
	register(&propDef{
		ID: "C07", Level: "exploration",
		Families: []family{
			{Name: "sshd-pipe-vs-direct", Fn: scnC07Sshd, Weight: 3, Group: len(sshdForms)},
			{Name: "audit-line-terminator", Fn: scnC07Audit, Weight: 1},
			{Name: "audit-pipe-vs-direct", Fn: scnC07AuditPipe, Weight: 1},
		},
		Rule: "every one of the 22 generated message shapes (20 forms; the accepted public-key form in its three branches) with generated fields is processed twice by fresh processors: directly as (pid, message), and as '<pid><padding><message>\\n' " +
			"written in taped chunks to a simulated FIFO read by the real syslog ingester (plus once at callback level), in a quarter of the runs followed by the unterminated beginning of another record before the writer goes away; events (all fields but the timestamp), forwarded logins and returned errors must agree, also when the event write fails (a tenth of the runs); " +
			"audit record groups are parsed and coalesced with and without the trailing newline; the records of generated sessions are written in taped chunks to a simulated FIFO read by the real audit-log ingester " +
			"(read-buffer size, hand-over buffer and consumer pace taped; the consumer keeps what it was handed, as the reassembler does) and every record handed over must, when all have arrived, still parse to the message its line parses to directly; the form is enumerated within each group of runs; " +
			"non-trivial = the direct path produced at least one event; distinct = distinct (message, padding, chunking, schedule hash)",
		Quick: 22 * 300, Thorough: 22 * 10000,
	})
}

type sshdRun struct {
	events []*OutEvent
	logins []common.RemoteUserLogin
	errs   []string
}

func (r *sshdRun) render() string {
	var b strings.Builder
	for _, e := range r.events {
		c := *e
		c.LoggedAt = time.Time{}
		c.Seq, c.Task, c.Raw, c.Ptr, c.StepAt = 0, "", "", nil, 0
		j, _ := json.Marshal(c)
		b.Write(j)
		b.WriteString("\n")
	}
	for _, l := range r.logins {
		fmt.Fprintf(&b, "login pid=%d cred=%q ident=%s\n", l.PID, l.CredUserID, identityOfEvent(l.Source))
	}
	for _, e := range r.errs {
		b.WriteString("error: " + e + "\n")
	}
	return b.String()
}

func newSshdProc(ctx context.Context, rec *Recorder, logins chan common.RemoteUserLogin) sshd.SshdProcessor {
	pprov := metrics.NewPrometheusMetricsProviderForRegisterer(prometheus.NewRegistry())
	return sshd.NewSshdProcessor(ctx, logins, "sim-node", "sim-mid", auditevent.NewAuditEventWriter(rec), pprov)
}

func drainLogins(ch chan common.RemoteUserLogin) []common.RemoteUserLogin {
	var out []common.RemoteUserLogin
	for {
		select {
		case l := <-ch:
			out = append(out, l)
		default:
			return out
		}
	}
}

func scnC07Sshd(rc *RunCtx) {
	t := rc.Spec
	form := sshdForms[rc.Sub%len(sshdForms)]
	hostileNames = true
	m := GenSshdMsg(t, form, 1+t.Choose(9, "uniq"))
	hostileNames = false
	if t.Choose(10, "pid.odd") == 9 {
		// what rsyslog puts into %PROCID% is not always a number
		m.PID = []string{"-", "sshd", "99999999999999999999", "0017", "+5", ""}[t.Choose(6, "pid.odd.token")]
		rc.Sim.Count("c07.odd_pid_token")
	}
	if !m.Accepted && t.Choose(10, "msg.trailing.ws") == 9 {
		// the message's own text ends in white space (or starts with a tab): part of the message
		m.Msg = []string{m.Msg + " ", m.Msg + "\t", m.Msg + " \r", "\t" + m.Msg}[t.Choose(4, "msg.ws.kind")]
		rc.Sim.Count("c07.message_with_outer_whitespace")
	}
	pad := t.Choose(3, "pad")
	line := m.Line(pad)
	ctx, cancel := context.WithCancel(context.Background())
	rc.Cleanup(cancel)
	seed := uint64(rc.Index)*7919 + 17
	// in a tenth of the runs the event cannot be written (same fault on every path): the
	// outcome, including the error handed back, must still be the same
	writeFails := t.Choose(10, "write.fails") == 9
	if writeFails {
		rc.Sim.Count("fault.write_error_all_paths")
	}
	failAt := func(r *Recorder) *Recorder {
		if writeFails {
			r.FailAt, r.FailAll = 1, true
		}
		return r
	}

	// the correlator side of the logins channel is busy for a taped simulated time in half of
	// the runs (same for both paths): unbuffered channel, consumer task starts receiving late
	busyMs := 0
	if t.Choose(2, "busy") == 1 {
		busyMs = []int{500, 1500, 2500, 5000}[t.Choose(4, "busy.ms")]
	}
	lateConsumer := func(name string, ch chan common.RemoteUserLogin, out *[]common.RemoteUserLogin, stop chan struct{}) {
		rc.Sim.Spawn(name, func() {
			simrt.Sleep(time.Duration(busyMs)*time.Millisecond, "world.correlator.busy")
			for {
				c0, c1 := simrt.Recv(ch), simrt.Recv(stop)
				if simrt.Select(name, false, c0, c1) != 0 {
					return
				}
				*out = append(*out, c0.Val)
			}
		})
	}
	stopAll := make(chan struct{})
	rc.Cleanup(func() { close(stopAll) })

	// (a) direct
	uuid.SetRand(simrt.NewRandReader(seed))
	recA := failAt(&Recorder{Sim: rc.Sim, NoPoint: true})
	a := &sshdRun{}
	if busyMs == 0 {
		chA := make(chan common.RemoteUserLogin, 4)
		if err := newSshdProc(ctx, recA, chA).ProcessSshdLogEntry(ctx, sshd.SshdLogEntry{PID: m.PID, Message: m.Msg}); err != nil {
			a.errs = append(a.errs, err.Error())
		}
		a.logins = drainLogins(chA)
	} else {
		chA := make(chan common.RemoteUserLogin)
		lateConsumer("world.correlatorA", chA, &a.logins, stopAll)
		doneA := &doneFlag{}
		rc.Sim.Spawn("direct", func() {
			doneA.set(newSshdProc(ctx, recA, chA).ProcessSshdLogEntry(ctx, sshd.SshdLogEntry{PID: m.PID, Message: m.Msg}))
		})
		rc.Sim.Policy = simrt.PolicyRunToBlock
		for i := 0; i < 70 && !doneA.v; i++ {
			rc.Sim.RunUntil(func() bool { return doneA.v }, 100000)
			if !doneA.v {
				time.Sleep(100 * time.Millisecond)
			}
		}
		rc.Sim.RunUntil(nil, 100000)
		if doneA.err != nil {
			a.errs = append(a.errs, doneA.err.Error())
		}
	}
	a.events = recA.Events

	// (b') callback level
	uuid.SetRand(simrt.NewRandReader(seed))
	recC := failAt(&Recorder{Sim: rc.Sim, NoPoint: true})
	chC := make(chan common.RemoteUserLogin, 4)
	sliC := syslog.NewSyslogIngester("/unused", newSshdProc(ctx, recC, chC), namedpipe.NewNamedPipeIngester(nopLogger, health.NewHealth()))
	c := &sshdRun{}
	if err := sliC.Process(ctx, line); err != nil {
		c.errs = append(c.errs, err.Error())
	}
	c.events, c.logins = recC.Events, drainLogins(chC)

	// (b) through the simulated FIFO and the real ingester
	uuid.SetRand(simrt.NewRandReader(seed))
	recB := failAt(&Recorder{Sim: rc.Sim})
	chB := make(chan common.RemoteUserLogin, 4)
	b := &sshdRun{}
	if busyMs > 0 {
		chB = make(chan common.RemoteUserLogin)
		lateConsumer("world.correlatorB", chB, &b.logins, stopAll)
	}
	fragment := ""
	if t.Choose(4, "fragment") == 3 {
		next := GenSshdMsg(t, []string{"accepted-password", "accepted-cert", "invalid-user"}[t.Choose(3, "fragment.form")], 77).Line(0)
		fragment = next[:1+t.Choose(len(next)-2, "fragment.cut")]
		rc.Sim.Count("pipe.unterminated_fragment_at_eof")
	}
	path := "/sim/c07-sshd-pipe"
	pipe := rc.Sim.AddPipe(path)
	rc.Sim.Knobs["bufio"] = []int{4096, 16, 64}[t.Choose(3, "bufio")]
	sliB := syslog.NewSyslogIngester(path, newSshdProc(ctx, recB, chB), namedpipe.NewNamedPipeIngester(nopLogger, health.NewHealth()))
	res := &doneFlag{}
	rc.Sim.Spawn("sshd-ingest", func() { res.set(sliB.Ingest(ctx)) })
	pp := &Pipeline{rc: rc}
	rc.Sim.Spawn("world.sshd", func() {
		w := pipe.OpenWriter()
		pauses := 0
		for i, ch := range pp.chunks([]byte(line)) {
			simrt.Point("world.chunk")
			if i > 0 && pauses < 4 && rc.Sim.Tape.ChooseBiased(3, "chunk.pause") == 1 {
				pauses++
				// a slow writer: the rest of the record arrives seconds later
				simrt.Sleep(time.Duration(200+rc.Sim.Tape.Choose(3000, "chunk.pause.ms"))*time.Millisecond, "world.chunk.pause")
			}
			w.Write(ch)
		}
		if fragment != "" {
			// the writer dies in the middle of its next record: what it wrote of it is not a record
			simrt.Point("world.fragment")
			w.Write([]byte(fragment))
		}
		simrt.Point("world.close")
		w.Close()
	})
	pipelinePolicy(rc)
	ok := false
	for i := 0; i < 300; i++ {
		if why := rc.Sim.RunUntil(func() bool { return res.v }, 400000); why == "stop" {
			ok = true
			break
		} else if why == "budget" {
			break
		}
		time.Sleep(100 * time.Millisecond)
	}
	rc.Sim.RunUntil(nil, 100000)
	b.events = recB.Events
	if busyMs == 0 {
		b.logins = drainLogins(chB)
	}
	// what the ingester returns for this record: the end of the stream is its normal end, any
	// other error is the record's
	if res.v && res.err != nil && !errors.Is(res.err, io.EOF) {
		b.errs = append(b.errs, res.err.Error())
	}
	rc.CaseKey(form, m.Msg, pad, busyMs)
	rc.R.NonTrivial = len(a.events) > 0 || writeFails
	rc.R.Sample = map[string]any{"form": form, "pid": m.PID, "message": m.Msg, "padding": pad + 1, "correlator_busy_ms": busyMs, "write_fails": writeFails, "direct_events": len(a.events), "pipe_events": len(b.events), "direct_logins": len(a.logins), "pipe_logins": len(b.logins)}
	if !ok {
		rc.Abort("syslog ingester did not finish: %v", rc.Sim.Live())
		return
	}
	ra, rb, rcb := a.render(), b.render(), c.render()
	if ra != rcb {
		rc.Fail("C07", "sshd-callback-differs", "form %s: the line %q handed to the syslog ingester's callback yields\n%s\nbut the processor yields for (pid %q, message %q)\n%s", form, line, rcb, m.PID, m.Msg, ra)
		return
	}
	if ra != rb {
		rc.Fail("C07", "sshd-pipe-differs", "form %s: the line %q delivered through the pipe yields\n%s\nbut the processor yields for (pid %q, message %q)\n%s", form, line, rb, m.PID, m.Msg, ra)
	}
}

func scnC07Audit(rc *RunCtx) {
	t := rc.Spec
	k := NewKaudit()
	var e *KEvent
	switch t.Choose(4, "kind") {
	case 0:
		e = k.Login(fmt.Sprint(100+t.Choose(900, "ses")), 1000+t.Choose(9000, "pid"), 1000)
	case 1:
		e = k.UserMsg([]string{"USER_START", "USER_END", "CRED_DISP", "USER_LOGIN", "CRED_ACQ"}[t.Choose(5, "typ")], fmt.Sprint(100+t.Choose(900, "ses")), 1000+t.Choose(9000, "pid"), 1000, t.Choose(2, "ok") == 1, t.Choose(2, "rf"))
	default:
		e = GenAction(t, k, fmt.Sprint(100+t.Choose(900, "ses")), 1000+t.Choose(9000, "pid"), 1000)
	}
	rc.CaseKey(strings.Join(e.Lines, "|"))
	rc.R.NonTrivial = true
	rc.R.Sample = map[string]any{"lines": e.Lines}
	parse := func(suffix string) (string, error) {
		var msgs []*auparse.AuditMessage
		var dataErrs []string
		for _, l := range e.Lines {
			m, err := auparse.ParseLogLine(l + suffix)
			if err != nil {
				return "", fmt.Errorf("%q: %w", l+suffix, err)
			}
			if _, err := m.Data(); err != nil {
				if m.RecordType == auparse.AUDIT_EXECVE {
					// a continued argument vector: the library cannot read the fields of such a
					// record, with or without the terminator
					dataErrs = append(dataErrs, err.Error())
				} else {
					return "", fmt.Errorf("%q: data: %w", l+suffix, err)
				}
			}
			if m.RecordType == auparse.AUDIT_EOE {
				continue
			}
			msgs = append(msgs, m)
		}
		ev, err := aucoalesce.CoalesceMessages(msgs)
		if err != nil {
			return "", err
		}
		aucoalesce.ResolveIDs(ev)
		ev.Warnings = nil
		j, _ := json.Marshal(ev)
		return string(j) + strings.Join(dataErrs, ";"), nil
	}
	plain, err1 := parse("")
	nl, err2 := parse("\n")
	switch {
	case err1 != nil:
		rc.Abort("world model line does not parse: %v", err1)
	case err2 != nil:
		rc.Fail("C07", "audit-newline-parse-error", "audit record parses without but not with its trailing newline: %v", err2)
	case plain != nl:
		rc.Fail("C07", "audit-newline-differs", "audit record group parses to different events with and without the trailing newline:\nwith:    %s\nwithout: %s", truncate(nl, 1500), truncate(plain, 1500))
	}
}

type lineBox struct{ got []string }

//go:norace
func (b *lineBox) add(s string) { b.got = append(b.got, s) }

// scnC07AuditPipe: the audit records of a few generated sessions go through a simulated FIFO and
// the real audit-log ingester; the consumer of the hand-over channel keeps every record it was
// handed (the daemon's consumer does: the reassembler holds the parsed records of a group until
// the group is complete) and compares them with the lines written only after the last arrived.
func scnC07AuditPipe(rc *RunCtx) {
	t := rc.Spec
	k := NewKaudit()
	var lines []string
	nses := 1 + t.Choose(4, "nses")
	for i := 0; i < nses; i++ {
		ses := fmt.Sprint(300 + i*7)
		s := GenSession(t, k, ses, 4000+i*11, 1000+i, 2+t.Choose(12, "maxactions"))
		for _, e := range s.Events {
			lines = append(lines, e.Lines...)
		}
	}
	capacity := []int{10000, 1, 4, 32, 256}[t.Choose(5, "capacity")]
	// the writer may die in the middle of a record: what it wrote of it is not a record
	torn := ""
	if t.Choose(4, "torn.at.eof") == 3 {
		last := k.UserMsg("USER_END", "300", 4000, 1000, true, 0).Lines[0]
		torn = last[:1+t.Choose(len(last)-1, "torn.cut")]
		if i := strings.Index(last, " ses=300"); i > 0 && t.Choose(2, "torn.inside.ses") == 1 {
			torn = last[:i+len(" ses=3")+t.Choose(2, "torn.ses.digits")] // cut inside the session id
		}
		rc.Sim.Count("c07.audit_record_torn_at_eof")
	}
	rc.Sim.Knobs["bufio"] = []int{4096, 128, 512, 1024}[t.Choose(4, "bufio")]
	paceMs := []int{0, 0, 5, 50}[t.Choose(4, "pace")]
	startLate := t.Choose(3, "late") == 1
	ctx, cancel := context.WithCancel(context.Background())
	rc.Cleanup(cancel)
	path := "/sim/c07-audit-pipe"
	pipe := rc.Sim.AddPipe(path)
	ch := make(chan string, capacity)
	ali := auditlog.NewAuditLogIngester(path, ch, namedpipe.NewNamedPipeIngester(nopLogger, health.NewHealth()))
	res := &doneFlag{}
	rc.Sim.Spawn("audit-ingest", func() { res.set(ali.Ingest(ctx)) })
	box := &lineBox{}
	cdone := &doneFlag{}
	rc.Sim.Spawn("world.consumer", func() {
		if startLate {
			simrt.Sleep(2*time.Second, "world.consumer.late")
		}
		for len(box.got) < len(lines) {
			c0, c1 := simrt.Recv(ch), simrt.Recv(ctx.Done())
			if simrt.Select("world.consumer", false, c0, c1) != 0 {
				break
			}
			box.add(c0.Val)
			if paceMs > 0 && rc.Sim.Tape.Choose(3, "pace.now") == 0 {
				simrt.Sleep(time.Duration(paceMs)*time.Millisecond, "world.consumer.pace")
			}
		}
		cdone.set(nil)
	})
	pp := &Pipeline{rc: rc}
	rc.Sim.Spawn("world.auditd", func() {
		w := pipe.OpenWriter()
		var all []byte
		for _, l := range lines {
			all = append(all, l...)
			all = append(all, '\n')
		}
		if torn != "" {
			all = append(all, torn...)
		}
		// records are written in bursts: several records per write, cut at taped places
		for len(all) > 0 {
			n := 1 + rc.Sim.Tape.Choose(1500, "burst")
			if n > len(all) {
				n = len(all)
			}
			for _, c := range pp.chunks(all[:n]) {
				simrt.Point("world.chunk")
				w.Write(c)
			}
			all = all[n:]
		}
		simrt.Point("world.close")
		w.Close()
	})
	pipelinePolicy(rc)
	ok := false
	quiet := 0
	for i := 0; i < 400; i++ {
		why := rc.Sim.RunUntil(func() bool { return res.v && cdone.v }, 200000)
		if why == "stop" {
			ok = true
			break
		} else if why == "budget" {
			break
		}
		// the ingester has returned (end of stream) and the hand-over buffer is drained, but
		// the consumer still waits: records are missing, which is decided below
		if res.v && len(ch) == 0 {
			if quiet++; quiet >= 5 {
				ok = true
				break
			}
		}
		time.Sleep(100 * time.Millisecond)
	}
	rc.CaseKey(hashStr(lines...), capacity, paceMs, startLate)
	rc.R.NonTrivial = len(lines) > capacity || paceMs > 0 || startLate
	rc.R.Sample = map[string]any{"records": len(lines), "handover_capacity": capacity, "read_buffer": rc.Sim.Knobs["bufio"], "consumer_pace_ms": paceMs, "consumer_late": startLate, "handed_over": len(box.got)}
	if len(rc.Sim.Panics) > 0 {
		rc.Fail("C07", "panic", "audit ingester panicked: %s", rc.Sim.Panics[0].Value)
		return
	}
	if !ok {
		rc.Abort("audit ingester / consumer did not finish: %v", rc.Sim.Live())
		return
	}
	if len(box.got) != len(lines) {
		rc.Fail("C07", "audit-pipe-record-count", "%d records were written to the audit pipe, %d were handed over", len(lines), len(box.got))
		return
	}
	if torn != "" && len(ch) > 0 {
		rc.Fail("C07", "audit-pipe-torn-record-handed-over", "the writer died inside a record (%d bytes without terminator): %q was handed over as a record", len(torn), truncate(<-ch, 300))
		return
	}
	render := func(l string) string {
		m, err := auparse.ParseLogLine(l)
		if err != nil {
			return "error: " + err.Error()
		}
		d, err := m.Data()
		if err != nil {
			return "data error: " + err.Error()
		}
		j, _ := json.Marshal(d)
		return fmt.Sprintf("%s %d %d %s", m.RecordType, m.Timestamp.UnixNano(), m.Sequence, j)
	}
	for i, l := range lines {
		if a, b := render(l), render(box.got[i]); a != b {
			rc.Fail("C07", "audit-pipe-differs", "record %d of %d handed over by the audit ingester reads %q and parses to\n%s\nbut the record written was %q, which parses to\n%s", i, len(lines), truncate(box.got[i], 400), truncate(b, 600), truncate(l, 400), truncate(a, 600))
			return
		}
	}
}
