package verifsim

import (
	"fmt"
	"sort"
	"strings"
	"time"

	"github.com/metal-toolbox/audito-maldito/internal/simrt"
)

// C03: correlation is atomic under concurrent logins, audit events and cleanup.
//
// Small concurrent programs over the real tracker; every schedule's observable must equal
// the observable of some sequential order of the same operations (computed with the real
// code as its own sequential specification); no deadlock; no panic.

const c03Group = 256

func init() {
	register(&propDef{
		ID: "C03", Level: "exploration",
		Families: []family{
			{Name: "l1-programs", Fn: scnC03L1, Weight: 3, Group: c03Group},
			{Name: "syncmap-linearizable", Fn: scnC03SyncMap, Weight: 1, Group: c03Group},
		},
		Rule: "tape-generated concurrent programs (2-5 tasks, <=10 tracker operations: logins, invalid logins, events of one or two sessions incl. one session's events from two tasks, events of a session the tracker never saw a LOGIN record for, cleanup with a past or future cut-off; one program in six is about a reused PID: the LOGIN record that consumes a waiting login delivered concurrently with the login of the next sshd process that has the same PID, or a login that has waited for 70 s replaced by the next process's login concurrently with that process's LOGIN record) x schedules " +
			"(baseline, systematic single-preemption sweep over (tasks completed first, preempted task, point), PCT d<=3, random, biased); " +
			"plus the GenericSyncMap both maps are built on: concurrent Store/Load/Has/Delete/Len/Iterate/WithLockedValueDo histories checked for linearizability against a plain map (porcupine); " +
			"non-trivial = at least one preemption of a task that was still runnable (a context switch inside an operation sequence); " +
			"distinct = distinct (program hash, schedule hash)",
		Quick: 48 * c03Group, Thorough: 1500 * c03Group,
		Race: true, RaceQuick: 2 * c03Group, RaceThorough: 100 * c03Group,
	})
}

type c03Program struct {
	World *L1World
	// Pre is delivered sequentially before the tasks start
	Pre []L1Op
	// PreSleep is how long (fake clock) the state left by Pre has existed when the tasks start
	PreSleep time.Duration
	Prog     [][]L1Op
	Probes   []L1Op
	Desc     []string
}

// c03MaxOrders bounds the number of sequential orders executed as the reference of one program.
const c03MaxOrders = 20000

// interleavings is the number of orders in which the operations of the tasks can be executed one
// at a time, keeping each task's own order (a multinomial coefficient), saturating.
func interleavings(prog [][]L1Op) int {
	n, total := 1, 0
	for _, ops := range prog {
		for i := 1; i <= len(ops); i++ {
			total++
			n = n * total / i
			if n > 1<<40 {
				return 1 << 40
			}
		}
	}
	return n
}

// genC03Reuse: a login waits for its session; the LOGIN record that consumes it is delivered
// concurrently with the login of the next sshd process that got the same PID.
func genC03Reuse(t *simrt.Tape) *c03Program {
	k := NewKaudit()
	w := &L1World{}
	p := &c03Program{World: w}
	pid := 4000
	for si := 0; si < 2; si++ {
		ses := fmt.Sprint(500 + si)
		s := &Session{Ses: ses, PID: pid, UID: 1000 + si, Kind: "ssh"}
		s.Login = GenLogin(t, pid, si+1)
		s.Events = append(s.Events, k.Login(ses, pid, s.UID))
		if si == 1 || t.Choose(2, "reuse.follow") == 1 {
			s.Events = append(s.Events, GenAction(t, k, ses, pid, s.UID))
		}
		s.Events = append(s.Events, k.UserMsg("USER_LOGIN", ses, pid, s.UID, true, 0))
		w.Sessions = append(w.Sessions, s)
	}
	s0, s1 := w.Sessions[0], w.Sessions[1]
	p.Pre = []L1Op{{Kind: "login", S: 0}}
	if t.Choose(2, "reuse.variant") == 1 {
		// the first login never gets its session and has been waiting for more than a minute (no
		// sweep has run yet); the login of the next process with that PID is delivered
		// concurrently with the LOGIN record of its own session
		p.PreSleep = 70 * time.Second
		var evs []L1Op
		for i := 0; i < len(s1.Events)-1; i++ {
			evs = append(evs, L1Op{Kind: "event", S: 1, E: i})
		}
		p.Prog = [][]L1Op{{{Kind: "login", S: 1}}, evs}
		p.Probes = append(p.Probes, L1Op{Kind: "event", S: 1, E: len(s1.Events) - 1})
	} else {
		var evs []L1Op
		for i := 0; i < len(s0.Events)-1; i++ {
			evs = append(evs, L1Op{Kind: "event", S: 0, E: i})
		}
		p.Prog = [][]L1Op{evs, {{Kind: "login", S: 1}}}
		if t.Choose(3, "reuse.cleanup") == 2 {
			p.Prog = append(p.Prog, []L1Op{{Kind: "cleanup", Cut: -3600}})
		}
		for i := range s1.Events {
			p.Probes = append(p.Probes, L1Op{Kind: "event", S: 1, E: i})
		}
		p.Probes = append(p.Probes, L1Op{Kind: "event", S: 0, E: len(s0.Events) - 1})
	}
	p.Desc = append(p.Desc, fmt.Sprintf("before: %v, then %v pass", p.Pre, p.PreSleep))
	for ti, ops := range p.Prog {
		var ss []string
		for _, o := range ops {
			ss = append(ss, o.String())
		}
		p.Desc = append(p.Desc, fmt.Sprintf("T%d: %s", ti, strings.Join(ss, "; ")))
	}
	return p
}

func genC03Program(t *simrt.Tape) *c03Program {
	if t.Choose(6, "pid.reuse") == 5 {
		return genC03Reuse(t)
	}
	k := NewKaudit()
	w := &L1World{}
	nSess := 1 + t.Choose(2, "nsess")
	ended := map[int]bool{}
	p := &c03Program{World: w}
	for si := 0; si < nSess; si++ {
		pid := 4000 + si*17
		ses := fmt.Sprint(500 + si)
		s := &Session{Ses: ses, PID: pid, UID: 1000 + si, Kind: "ssh"}
		s.Login = GenLogin(t, pid, si+1)
		s.Events = append(s.Events, k.Login(ses, pid, s.UID))
		nf := t.Choose(3, "nfollow")
		if si > 0 && nf > 1 {
			nf = 1
		}
		for i := 0; i < nf; i++ {
			s.Events = append(s.Events, GenAction(t, k, ses, pid, s.UID))
		}
		if t.Choose(3, "ends") == 0 {
			s.Events = append(s.Events, k.UserMsg("CRED_DISP", ses, pid, s.UID, true, 0))
			ended[si] = true
		}
		// probe event (delivered sequentially after all tasks returned)
		s.Events = append(s.Events, k.UserMsg("USER_LOGIN", ses, pid, s.UID, true, 0))
		w.Sessions = append(w.Sessions, s)
	}
	// session 0: login || events
	s0 := w.Sessions[0]
	variant := t.Choose(6, "variant")
	t0 := []L1Op{{Kind: "login", S: 0}}
	switch variant {
	case 4:
		// an invalid login is rejected before the valid one of the same task
		t0 = []L1Op{{Kind: "badlogin", S: 0}, {Kind: "login", S: 0}}
	case 5:
		// cleanup follows the login in program order
		t0 = []L1Op{{Kind: "login", S: 0}, {Kind: "cleanup", Cut: []int{3600, -3600}[t.Choose(2, "cut")]}}
	}
	p.Prog = append(p.Prog, t0)
	var evs []L1Op
	for i := 0; i < len(s0.Events)-1; i++ {
		evs = append(evs, L1Op{Kind: "event", S: 0, E: i})
	}
	if variant == 5 && nSess > 1 {
		// the session's records all arrive after the concurrent phase (as probes)
		for _, e := range evs {
			p.Probes = append(p.Probes, e)
		}
		evs = nil
	}
	if len(evs) == 0 {
		// nothing concurrent from session 0's records
	} else if sp := t.Choose(3, "split.s0"); len(evs) >= 2 && (sp == 0 || (sp == 1 && ended[0])) {
		// (a session that ends inside the concurrent phase is split twice as often: its credential
		// disposal then races with an earlier record of the same session)
		// the reassembler hands events to the correlator from two goroutines (record push
		// and time-out maintenance): events of one session delivered by two tasks
		k := 1 + t.Choose(len(evs)-1, "split.at")
		p.Prog = append(p.Prog, evs[:k], evs[k:])
	} else {
		p.Prog = append(p.Prog, evs)
	}
	p.Probes = append(p.Probes, L1Op{Kind: "event", S: 0, E: len(s0.Events) - 1})
	if nSess > 1 {
		s1 := w.Sessions[1]
		var ops []L1Op
		n := len(s1.Events) - 1
		lp := t.Choose(n+1, "loginpos")
		for i := 0; i <= n; i++ {
			if i == lp {
				ops = append(ops, L1Op{Kind: "login", S: 1})
			}
			if i < n {
				ops = append(ops, L1Op{Kind: "event", S: 1, E: i})
			}
		}
		p.Prog = append(p.Prog, ops)
		p.Probes = append(p.Probes, L1Op{Kind: "event", S: 1, E: n})
	}
	untracked := -1
	if t.Choose(3, "untracked") == 2 {
		// records of a session the tracker never saw a LOGIN record for (opened before the daemon
		// started, or not by sshd): most of a real audit stream; nothing is emitted for them
		o := &Session{Ses: "599", PID: 4900, UID: 1009, Kind: "orphan"}
		var ops []L1Op
		for i, n := 0, 1+t.Choose(2, "untracked.n"); i < n; i++ {
			o.Events = append(o.Events, GenAction(t, k, o.Ses, o.PID, o.UID))
			ops = append(ops, L1Op{Kind: "event", S: len(w.Sessions), E: i})
		}
		w.Sessions = append(w.Sessions, o)
		p.Prog = append(p.Prog, ops)
		untracked = len(p.Prog) - 1
	}
	switch t.Choose(3, "cleanup") {
	case 1:
		p.Prog = append(p.Prog, []L1Op{{Kind: "cleanup", Cut: -3600}})
	case 2:
		p.Prog = append(p.Prog, []L1Op{{Kind: "cleanup", Cut: 3600}})
	}
	// the reference (every sequential order of the tasks' operations) must stay enumerable
	for untracked >= 0 && interleavings(p.Prog) > c03MaxOrders {
		if ops := p.Prog[untracked]; len(ops) > 1 {
			p.Prog[untracked] = ops[:len(ops)-1]
		} else {
			p.Prog = append(p.Prog[:untracked], p.Prog[untracked+1:]...)
			untracked = -1
		}
	}
	for ti, ops := range p.Prog {
		var ss []string
		for _, o := range ops {
			ss = append(ss, o.String())
		}
		p.Desc = append(p.Desc, fmt.Sprintf("T%d: %s", ti, strings.Join(ss, "; ")))
	}
	return p
}

func scnC03L1(rc *RunCtx) {
	p := genC03Program(rc.Spec)
	if err := p.World.Prepare(); err != nil {
		rc.Abort("world: %v", err)
		return
	}
	key := progKey(p.World, p.Prog, p.Probes)
	if len(p.Pre) > 0 {
		key = hashStr(key, fmt.Sprint(p.Pre, p.PreSleep))
	}
	rc.CaseKey(key)

	// schedule for this run
	sched := ""
	switch {
	case rc.Sub == 0:
		rc.Sim.Policy = simrt.PolicyRunToBlock
		sched = "baseline"
	case rc.Sub <= 4*3*14:
		// systematic single-preemption sweep: `before` other tasks run to completion, then
		// task k runs j steps, then everybody else runs to completion, then k resumes
		x := rc.Sub - 1
		k := x % 4
		before := (x / 4) % 3
		j := x / 12
		if k >= len(p.Prog) {
			k = k % len(p.Prog)
			j += 14
		}
		rc.Sim.Policy = simrt.PolicySweep
		rc.Sim.SweepTask = fmt.Sprintf("T%d", k)
		rc.Sim.SweepAt = j + 1
		rc.Sim.SweepBefore = before
		sched = fmt.Sprintf("sweep(%d tasks first, then T%d@%d)", before, k, j+1)
	default:
		sched = pickPolicy(rc, 60)
	}

	rec := &Recorder{Sim: rc.Sim}
	tr := newTracker(rec)
	if len(p.Pre) > 0 {
		rec.NoPoint = true
		var perrs []string
		if stuck := p.World.execAllInline(tr, p.Pre, &perrs); stuck != "" || len(perrs) > 0 {
			rc.Abort("deliveries before the concurrent phase failed: %s %v", stuck, perrs)
			return
		}
		rec.NoPoint = false
		time.Sleep(p.PreSleep)
		rc.Sim.Count("c03.pid_reuse_program")
	}
	pr := spawnProgram(rc, p.World, tr, p.Prog)
	why := rc.Sim.RunUntil(pr.done, 5000)
	rc.R.NonTrivial = rc.Sim.Preempts > 0
	rc.R.Sample = map[string]any{"program": p.Desc, "probes": fmt.Sprint(p.Probes), "schedule": sched,
		"sessions": p.World.Sessions}
	if why != "stop" {
		if dl := rc.Sim.Deadlocked(); len(dl) > 0 {
			rc.Fail("C03", "deadlock", "deliveries deadlocked: tasks waiting for locks nobody will release: %v; all: %v", dl, rc.Sim.Live())
			return
		}
		if why == "budget" {
			rc.Abort("step budget exhausted: %v", rc.Sim.Live())
			return
		}
		rc.Fail("C03", "stuck", "operations did not return and nothing can run: %v", rc.Sim.Live())
		return
	}
	if len(rc.Sim.Panics) > 0 {
		rc.Fail("C03", "panic", "panic in a concurrent delivery: %s: %s", rc.Sim.Panics[0].Task, rc.Sim.Panics[0].Value)
		return
	}
	// probes, sequentially, by the scheduler goroutine (inline)
	rec.NoPoint = true
	errs := pr.errs
	if stuck := p.World.execAllInline(tr, p.Probes, &errs); stuck != "" {
		rc.Fail("C03", "stuck", "after all concurrent deliveries returned a further delivery blocks forever: a lock is still held (%s)", stuck)
		return
	}
	obs := p.World.Observable(rec.Events, errs)

	ce := seqCache[key]
	if ce == nil {
		outs, n := p.World.seqOutcomes(p.Pre, p.PreSleep, p.Prog, p.Probes, c03MaxOrders+1)
		ce = &seqCacheEntry{outs, n}
		seqCache[key] = ce
	}
	rc.R.Stats = addStat(rc.R.Stats, "c03.seq_orders", ce.n)
	rc.State(hashStr(obs))
	if _, ok := ce.outs[obs]; !ok {
		if ce.n > c03MaxOrders {
			// the enumeration of sequential orders was cut off: no verdict from this run
			rc.Sim.Count("c03.reference_truncated")
			rc.R.NonTrivial = false
			return
		}
		var all []string
		for o, ord := range ce.outs {
			all = append(all, fmt.Sprintf("%s  (e.g. order %s)", o, ord))
		}
		sort.Strings(all)
		rc.Fail("C03", "not-serializable",
			"concurrent run emitted {%s} which no sequential order of the same deliveries produces; sequential outcomes (%d orders): %s",
			obs, ce.n, strings.Join(all, " || "))
	}
}
