package verifsim

import (
	"encoding/json"
	"flag"
	"fmt"
	"os"
	"testing"
	"time"
)

var (
	fProp    = flag.String("vsim.prop", "", "property id")
	fTier    = flag.String("vsim.tier", "quick", "tier")
	fSeed    = flag.Uint64("vsim.seed", 1, "base seed")
	fFrom    = flag.Int("vsim.from", 0, "first run index")
	fTo      = flag.Int("vsim.to", 0, "one past last run index")
	fStride  = flag.Int("vsim.stride", 1, "index stride")
	fOut     = flag.String("vsim.out", "", "output json path")
	fReplay  = flag.String("vsim.replay", "", "replay file")
	fFamily  = flag.String("vsim.family", "", "restrict to one family")
	fDigests = flag.Bool("vsim.digests", false, "emit per-run digests (determinism self-test)")
	fList    = flag.Bool("vsim.list", false, "list properties")
	fWall    = flag.Duration("vsim.wall", 0, "stop starting new runs after this wall time")
	fTrace   = flag.Bool("vsim.trace", false, "keep and emit full traces (debugging)")
	fTmp     = flag.String("vsim.tmp", "", "directory for scratch files (default: system temp dir)")
	fKnown   = flag.String("vsim.known", "", "known-findings json (fingerprints to skip shrinking)")
)

// WorkerOut is what one worker process reports.
type WorkerOut struct {
	Property    string            `json:"property"`
	Tier        string            `json:"tier"`
	Seed        uint64            `json:"seed"`
	Evaluations int               `json:"evaluations"`
	NonTrivial  []string          `json:"nontrivial_keys"` // distinct (case,sched) hashes of non-trivial runs
	States      []string          `json:"states"`
	Scheds      int               `json:"distinct_schedules"`
	SchedKeys   []string          `json:"sched_keys"`
	Stats       map[string]int    `json:"stats"`
	Families    map[string]int    `json:"families"`
	Steps       int               `json:"steps"`
	SimMs       int64             `json:"sim_ms"`
	WallS       float64           `json:"wall_s"`
	Violations  []ReplayFile      `json:"violations"`
	Aborts      []string          `json:"aborts"`
	Samples     []any             `json:"samples"`
	Digests     map[string]string `json:"digests,omitempty"`
	Leaks       int               `json:"leaks"`
	LeakSample  []string          `json:"leak_sample,omitempty"`
}

func fingerprint(r *Result) string {
	if len(r.Violations) == 0 {
		return ""
	}
	return r.Violations[0].Prop + "/" + r.Family + "/" + r.Violations[0].Class
}

func toReplay(r *Result) ReplayFile {
	rf := ReplayFile{Property: r.Prop, Family: r.Family, Seed: r.Seed, Index: r.Index, Tier: r.Tier,
		SpecTape: trimZeros(r.SpecOut), RunTape: trimZeros(r.RunOut), Violations: r.Violations,
		Sample: r.Sample, Trace: r.Trace, Fingerprint: fingerprint(r)}
	if len(r.Violations) > 0 {
		rf.Class = r.Violations[0].Class
	}
	return rf
}

func TestWorker(t *testing.T) {
	defer func() {
		if fifoDir != "" {
			os.RemoveAll(fifoDir)
		}
	}()
	if *fList {
		ps := map[string]any{}
		for id, p := range props {
			align := p.align()
			ps[id] = map[string]any{"quick": p.Quick, "thorough": p.Thorough, "align": align, "rule": p.Rule,
				"level": p.Level, "race": p.Race, "race_quick": p.RaceQuick, "race_thorough": p.RaceThorough}
		}
		b, _ := json.Marshal(map[string]any{"props": ps, "components": components, "assumptions": assumptions})
		fmt.Println(string(b))
		return
	}
	if *fProp == "" {
		t.Skip("no -vsim.prop")
	}
	if *fReplay != "" {
		replayMain(t)
		return
	}
	out := &WorkerOut{Property: *fProp, Tier: *fTier, Seed: *fSeed, Stats: map[string]int{}, Families: map[string]int{}}
	if *fDigests {
		out.Digests = map[string]string{}
	}
	nt := map[string]struct{}{}
	states := map[string]struct{}{}
	scheds := map[string]struct{}{}
	seenClass := map[string]int{}
	unstable := map[string]int{}
	w0 := time.Now()
	for i := *fFrom; i < *fTo; i += *fStride {
		if *fWall > 0 && time.Since(w0) > *fWall {
			break
		}
		if workerHung {
			out.Aborts = append(out.Aborts, fmt.Sprintf("runs %d..%d not executed: an earlier run of this worker process never finished", i, *fTo-1))
			break
		}
		rs := RunSpec{Prop: *fProp, Seed: *fSeed, Index: i, Tier: *fTier, Family: *fFamily}
		r := execRun(t, rs, *fTrace)
		if *fTrace {
			out.Samples = append(out.Samples, map[string]any{"index": i, "trace": r.Trace})
		}
		out.Evaluations++
		out.Families[r.Family]++
		out.Steps += r.Steps
		out.SimMs += r.SimTimeMs
		for k, v := range r.Stats {
			out.Stats[k] += v
		}
		if len(r.Leaked) > 0 {
			out.Leaks++
			if len(out.LeakSample) < 5 {
				out.LeakSample = append(out.LeakSample, fmt.Sprintf("%s#%d: %v", r.Family, i, r.Leaked))
			}
		}
		if r.Abort != "" {
			out.Aborts = append(out.Aborts, fmt.Sprintf("%s idx=%d: %s", r.Family, i, r.Abort))
			continue
		}
		if r.NonTrivial {
			nt[r.CaseHash+"/"+r.SchedHash] = struct{}{}
		}
		scheds[r.SchedHash] = struct{}{}
		for _, s := range r.StateHash {
			states[s] = struct{}{}
		}
		if *fDigests {
			out.Digests[fmt.Sprint(i)] = r.Digest + " " + r.CaseHash + " " + r.SchedHash
		}
		if len(out.Samples) < 2 && r.Sample != nil && r.NonTrivial {
			out.Samples = append(out.Samples, map[string]any{"family": r.Family, "index": i, "case": r.Sample})
		}
		if len(r.Violations) > 0 {
			fp := fingerprint(r)
			if seenClass[fp] >= 2 {
				// enough minimised witnesses of this class from this worker
				out.Stats["violations.additional_same_class"]++
				continue
			}
			// the tapes as recorded: reported unminimised when minimisation in this process is
			// not stable (code under test with state that outlives a run); the fresh-process
			// replay of the report decides whether it counts
			orig := toReplay(r)
			orig.Note = "not minimised: shrinking inside the worker process was not stable"
			if unstable[fp] >= 2 {
				// minimisation already failed twice for this class: do not spend the budget again,
				// report further witnesses as recorded (bounded), the orchestrator confirms them
				if unstable[fp] < 40 {
					unstable[fp]++
					out.Violations = append(out.Violations, orig)
				}
				continue
			}
			sr := shrink(t, r, 300)
			if sr.Abort != "" {
				out.Stats["shrink.unstable"]++
				unstable[fp]++
				out.Violations = append(out.Violations, orig)
				continue
			}
			// final rendering with trace
			rs2 := sr.RunSpec
			rs2.Replay = true
			rs2.Spec, rs2.Run = trimZeros(sr.SpecOut), trimZeros(sr.RunOut)
			rs2.Family = sr.Family
			fr := execRun(t, rs2, true)
			if len(fr.Violations) == 0 {
				out.Stats["shrink.unstable"]++
				unstable[fp]++
				out.Violations = append(out.Violations, orig)
				continue
			}
			seenClass[fp]++
			out.Violations = append(out.Violations, toReplay(fr))
		}
	}
	for k := range nt {
		out.NonTrivial = append(out.NonTrivial, k)
	}
	for k := range states {
		out.States = append(out.States, k)
	}
	for k := range scheds {
		out.SchedKeys = append(out.SchedKeys, k)
	}
	out.Scheds = len(scheds)
	out.WallS = time.Since(w0).Seconds()
	b, _ := json.Marshal(out)
	if *fOut != "" {
		if err := os.WriteFile(*fOut, b, 0o644); err != nil {
			t.Fatal(err)
		}
	} else {
		fmt.Println(string(b))
	}
	if workerHung {
		// goroutines of the unfinished run are still around: leave without waiting for them
		if fifoDir != "" {
			os.RemoveAll(fifoDir)
		}
		os.Exit(0)
	}
}

// replayMain re-executes a replay file in this (fresh) process and reports whether the
// same violation class is reproduced. Output: one JSON object on stdout.
func replayMain(t *testing.T) {
	b, err := os.ReadFile(*fReplay)
	if err != nil {
		fmt.Printf("{\"error\":%q}\n", err.Error())
		os.Exit(2)
	}
	var rf ReplayFile
	if err := json.Unmarshal(b, &rf); err != nil {
		fmt.Printf("{\"error\":%q}\n", err.Error())
		os.Exit(2)
	}
	rs := RunSpec{Prop: rf.Property, Family: rf.Family, Seed: rf.Seed, Index: rf.Index, Tier: rf.Tier,
		Replay: true, Spec: rf.SpecTape, Run: rf.RunTape}
	r := execRun(t, rs, true)
	res := map[string]any{"reproduced": sameClass(r, rf.Property, rf.Class), "violations": r.Violations,
		"abort": r.Abort, "digest": r.Digest, "class": rf.Class, "property": rf.Property, "trace": r.Trace,
		"scenario": r.Sample}
	ob, _ := json.Marshal(res)
	if *fOut != "" {
		os.WriteFile(*fOut, ob, 0o644)
	} else {
		fmt.Println(string(ob))
	}
}
