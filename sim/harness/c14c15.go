package verifsim

import (
	"context"
	"encoding/json"
	"errors"
	"fmt"
	"reflect"
	"sort"
	"strings"
	"time"

	"github.com/elastic/go-libaudit/v2"
	"github.com/elastic/go-libaudit/v2/aucoalesce"
	"github.com/metal-toolbox/auditevent"

	"github.com/metal-toolbox/audito-maldito/internal/common"
	"github.com/metal-toolbox/audito-maldito/internal/health"
	"github.com/metal-toolbox/audito-maldito/internal/simrt"
	"github.com/metal-toolbox/audito-maldito/processors/auditd"
	"github.com/metal-toolbox/audito-maldito/processors/auditd/sessiontracker"
)

func init() {
	register(&propDef{
		ID: "C14", Level: "exploration",
		Families: []family{
			{Name: "l2-rendering", Fn: scnC14(2), Weight: 4},
			{Name: "l3-rendering-under-backpressure", Fn: scnC14(3), Weight: 1},
		},
		Rule: "one to three correlated sessions (login bound before the first record or after k records) with up to 40 kernel events each drawn from all record groups of the kernel-audit world model " +
			"(simple and compound events, success=yes/no, res=success/failed/1/0, with/without EXECVE, EOE- and PROCTITLE-terminated or unterminated = delivered by the maintenance goroutine after the time-out) (incl. SELinux denials led by an AVC record) pushed through the real Read loop (parser, reassembler, tickers, tracker), and in a fifth of the runs through the assembled daemon on simulated pipes " +
			"with a hand-over buffer of 1-64 records and an output write that stalls for 0.5-1.3 simulated seconds (back-pressure up to the audit pipe; below the reassembler's time-out); " +
			"each UserAction is matched to its kernel event by timestamp and compared with generator ground truth (outcome, session, timestamp) and with aucoalesce run on exactly those records (action/how/object/process_args); " +
			"identity immutability over the whole session; a share of the runs under the race detector (the parser's and the maintenance goroutine's deliveries overlap); non-trivial = at least 3 UserActions including a failed one or one with arguments; distinct = distinct (stream hash, schedule hash)",
		Quick: 6000, Thorough: 150000,
		Race: true, RaceQuick: 96, RaceThorough: 6000,
	})
	register(&propDef{
		ID: "C15", Level: "fault_enumeration",
		Families: []family{
			{Name: "boundary-interleavings", Fn: scnC15Boundary, Weight: 2},
			{Name: "read-faults", Fn: scnC15Faults, Weight: 3, Group: 16},
		},
		Rule: "boundary: records of 2-3 kernel events (<=4 records each) interleaved in a taped merge order that keeps per-event order, EOE- and PROCTITLE-terminated groups and groups with neither (complete only by the reassembler's time-out), empty lines, arriving after a taped quiet period of 0-3 simulated seconds, fed to the real parseAuditLogs + reassembler + reassembler callback around a counting correlator; " +
			"read-faults: audit streams for bound sessions through the real Read with one fault enumerated within each group of runs: malformed line at position p, write error from the k-th event on or at the k-th event only, invalid login {pid 0, nil source, empty credential} at a taped point (for a PID nothing is known about, or for a session that is already waiting for its login), " +
			"unparsable PID in a LOGIN record (letters, 0x.., 0b.., 0o.., digit separators, exponent), two failures in one run, cancellation at a taped step with records queued (every record taken off the stream by then still reaches the correlator), no fault (half of these with the records of one compound event arriving in two bursts 0.3-0.8 reassembler time-outs apart around a record of another event), a single transient write failure at the k-th event of a hold-queue flush; non-trivial = records of different events were interleaved (boundary) or the fault fired before the end of the stream (faults); distinct = distinct (stream hash, fault, position, schedule hash)",
		Quick: 8000, Thorough: 200000,
	})
}

// ---- C14 ----

func scnC14(level int) scenarioFn {
	return func(rc *RunCtx) { scnC14At(rc, level) }
}

func scnC14At(rc *RunCtx, level int) {
	t := rc.Spec
	k := NewKaudit()
	w := &L1World{}
	n := 1 + t.Choose(3, "nsess")
	h := &History{W: w}
	var sshdTL, auditTL []TLItem
	ms := 0
	for si := 0; si < n; si++ {
		pid := 8000 + si*41
		s := &Session{Ses: fmt.Sprint(300 + si), PID: pid, UID: 1000 + si, Kind: "ssh"}
		s.Login = GenLogin(t, pid, si+1)
		s.Events = append(s.Events, k.Login(s.Ses, pid, s.UID))
		ne := 1 + t.Choose(40, "nevents")
		if t.Choose(3, "short") != 0 {
			ne = 1 + t.Choose(8, "nevents.short")
		}
		for i := 0; i < ne; i++ {
			e := GenAction(t, k, s.Ses, pid, s.UID)
			if e.NRec > 2 && t.Choose(8, "unterminated") == 7 {
				// neither EOE nor PROCTITLE: the group is delivered by the maintenance goroutine
				// once it has timed out, possibly while the parser delivers another one
				e.Unterminated()
				rc.Sim.Count("reassembler_unterminated_group")
			}
			s.Events = append(s.Events, e)
		}
		switch t.Choose(6, "rare.event") {
		case 4:
			s.Events = append(s.Events, k.Connect(s.Ses, pid, s.UID))
			rc.Sim.Count("c14.socket_syscall_with_sockaddr")
		case 5:
			s.Events = append(s.Events, k.OpenLongPath(s.Ses, pid, s.UID))
			rc.Sim.Count("c14.record_longer_than_8k")
		}
		if t.Choose(2, "end") == 1 {
			s.Events = append(s.Events, k.UserMsg("USER_END", s.Ses, pid, s.UID, t.Choose(3, "ok") != 0, t.Choose(2, "rf")))
			s.Events = append(s.Events, k.UserMsg("CRED_DISP", s.Ses, pid, s.UID, true, t.Choose(2, "rf")))
		}
		w.Sessions = append(w.Sessions, s)
	}
	// audit stream: sessions' events merged; login of each session before its LOGIN record
	// or after k records
	lens := make([]int, n)
	for i, s := range w.Sessions {
		lens[i] = len(s.Events)
	}
	idx := make([]int, n)
	nsplit := 0
	loginAfter := make([]int, n)
	for i := range loginAfter {
		loginAfter[i] = 0
		if t.Choose(3, "late") == 0 {
			loginAfter[i] = 1 + t.Choose(lens[i], "late.k")
		}
	}
	for _, si := range mergeOrder(t, lens) {
		if idx[si] == loginAfter[si] {
			sshdTL = append(sshdTL, TLItem{AtMs: ms, Kind: "login", S: si})
			ms += 20
		}
		ev := w.Sessions[si].Events[idx[si]]
		// (not together with a stalled output: a stall on top of the gap exceeds the reassembler's
		// time-out, and the group is then legitimately delivered in two parts)
		if ev.NRec >= 4 && level == 2 && t.Choose(4, "split.group") == 0 {
			// the records of one kernel event arrive in two bursts 0.6-1.8 s apart (records of
			// other events may fall in between); the reassembler waits up to 2 s for the rest
			cut := 1 + t.Choose(ev.NRec-1, "split.at")
			gap := 600 + t.Choose(1200, "split.gap")
			auditTL = append(auditTL, TLItem{AtMs: ms, Kind: "part", S: si, E: idx[si], Lo: 0, Hi: cut})
			auditTL = append(auditTL, TLItem{AtMs: ms + gap, Kind: "part", S: si, E: idx[si], Lo: cut, Hi: ev.NRec})
			nsplit++
		} else {
			auditTL = append(auditTL, TLItem{AtMs: ms, Kind: "event", S: si, E: idx[si]})
		}
		idx[si]++
		if t.Choose(4, "gap") == 0 {
			ms += []int{1, 10, 300, 1500}[t.Choose(4, "gap.ms")]
		}
	}
	sort.SliceStable(auditTL, func(i, j int) bool { return auditTL[i].AtMs < auditTL[j].AtMs })
	if nsplit > 0 {
		rc.Sim.Count("reassembler_group_split_in_time")
		ms += 2000
	}
	for si := range w.Sessions {
		if loginAfter[si] >= lens[si] {
			sshdTL = append(sshdTL, TLItem{AtMs: ms + 10, Kind: "login", S: si})
		}
	}
	if err := w.Prepare(); err != nil {
		rc.Abort("world: %v", err)
		return
	}
	p := newPipeline(rc, level, h, sshdTL, auditTL)
	// in half of the runs the encoder edits the UserActions it receives (a consumer such as
	// a redaction layer): shared state between emitted events and the stored login shows
	p.PoisonActions = level == 2 && rc.Index%2 == 1
	var stallFor time.Duration
	if level == 3 {
		// the assembled daemon with a small hand-over buffer between the audit ingester and the
		// audit processor, and an output that stalls once: the ingester is held up by back-pressure
		p.Knobs["auditLogChanBufSize"] = []int{1, 2, 8, 64}[t.Choose(4, "knob.chan")]
		p.Knobs["bufio"] = []int{4096, 64, 512}[t.Choose(3, "knob.bufio")]
		// (shorter than the reassembler's time-out minus one maintenance interval: a write that
		// takes longer than the time-out, while the parser sits in a delivery that the first record
		// of the next group triggered, lets that group expire half-received - the time-out is
		// wall-clock by design, and C14 does not quantify over such faults)
		_, rto, rint := auditd.SimReassemblerParams()
		maxStall := int((rto - rint - 200*time.Millisecond) / time.Millisecond)
		if maxStall < 600 {
			maxStall = 600
		}
		stallFor = time.Duration(500+t.Choose(maxStall-500, "stall.ms")) * time.Millisecond
	}
	pol := pipelinePolicy(rc)
	if err := p.Start(); err != nil {
		rc.Abort("start: %v", err)
		return
	}
	if level == 3 && p.disk != nil {
		p.disk.StallAt, p.disk.StallFor = 1+t.Choose(8, "stall.at"), stallFor
	}
	ok := p.Run(p.worldDone, time.Duration(ms+5000)*time.Millisecond+2*stallFor, 100*time.Millisecond, 1000000)
	if ok {
		ok = p.Run(nil, rc.SimNow()+3*time.Second+stallFor, 100*time.Millisecond, 1000000)
	}
	var hs []string
	for _, s := range w.Sessions {
		for _, e := range s.Events {
			hs = append(hs, e.Lines...)
		}
	}
	rc.CaseKey(hashStr(hs...), fmt.Sprint(loginAfter))
	nact, nfail, nargs := 0, 0, 0
	rc.R.Sample = map[string]any{"level": level, "knobs": p.Knobs, "output_stall_ms": stallFor.Milliseconds(), "sessions": n, "events_per_session": lens, "login_after_k_records": loginAfter, "policy": pol, "written": len(p.Out)}
	if !ok || !p.worldDone() {
		rc.Abort("run did not finish: %v", rc.Sim.Live())
		return
	}
	if p.ReadDone || len(p.procErrs) > 0 || p.Returned {
		rc.Abort("processors stopped in a fault-free run: %v %v %v", p.ReadErr, p.procErrs, p.RetErr)
		return
	}
	// snapshots of the login events at the time they were written
	loginSnap := map[string]*OutEvent{}
	for _, e := range p.Out {
		if e.Type == "UserLogin" {
			loginSnap[e.Subjects["pid"]] = e
		}
	}
	for _, e := range p.Out {
		if e.Type != "UserAction" {
			continue
		}
		si, ei := h.eventIndexOf(e)
		if si < 0 {
			rc.Fail("C14", "timestamp", "UserAction #%d (auditId %s) has loggedAt %v which is not the timestamp of any kernel audit record of the stream", e.Seq, e.AuditID, e.LoggedAt)
			return
		}
		nact++
		s := w.Sessions[si]
		ke := s.Events[ei]
		if e.AuditID != s.Ses {
			rc.Fail("C14", "audit-id", "UserAction for kernel event seq %d has auditId %q, the kernel session id is %q", ke.Seq, e.AuditID, s.Ses)
			return
		}
		if e.Component != "auditd" {
			rc.Fail("C14", "component", "UserAction has component %q", e.Component)
			return
		}
		wantOutcome := "failed"
		if ke.Success {
			wantOutcome = "succeeded"
		} else {
			nfail++
		}
		if e.Outcome != wantOutcome {
			rc.Fail("C14", "outcome", "kernel event seq %d (%s, success=%v: %s) rendered with outcome %q, expected %q", ke.Seq, ke.Type, ke.Success, truncate(ke.Lines[0], 200), e.Outcome, wantOutcome)
			return
		}
		ce := w.evs[si][ei]
		want := map[string]any{"action": ce.Summary.Action, "how": ce.Summary.How, "object": ce.Summary.Object}
		if len(ce.Process.Args) > 0 {
			want["process_args"] = ce.Process.Args
			nargs++
		}
		wj, _ := json.Marshal(want)
		var wn, gn any
		json.Unmarshal(wj, &wn)
		gj, _ := json.Marshal(e.Extra)
		json.Unmarshal(gj, &gn)
		if !reflect.DeepEqual(wn, gn) {
			rc.Fail("C14", "metadata", "kernel event seq %d (%s): metadata.extra is %s, aucoalesce yields %s for exactly those records", ke.Seq, ke.Type, gj, wj)
			return
		}
		if (len(ke.Args) > 0) != (e.Extra["process_args"] != nil) {
			rc.Fail("C14", "process-args", "kernel event seq %d has arguments %v but process_args is %v", ke.Seq, ke.Args, e.Extra["process_args"])
			return
		}
		ls := loginSnap[fmt.Sprint(s.PID)]
		if ls == nil {
			continue // C04's business
		}
		if e.Identity() != ls.Identity() {
			rc.Fail("C14", "identity-drift", "UserAction #%d of session %s carries identity %s, the login's event was written as %s", e.Seq, s.Ses, e.Identity(), ls.Identity())
			return
		}
	}
	for pid, ls := range loginSnap {
		if ls.Ptr == nil {
			continue // read back from the output file: there is no stored object to look at
		}
		now, err := snapshotEvent(ls.Ptr)
		if err != nil || now.Identity() != ls.Identity() || now.Raw != ls.Raw {
			rc.Fail("C14", "login-mutated", "the stored login of pid %s was altered by emitting events: written as %s, now %s", pid, ls.Raw, now.Raw)
			return
		}
	}
	rc.R.NonTrivial = nact >= 3 && (nfail > 0 || nargs > 0)
	p.Shutdown()
	rc.Cleanup(func() { p.teardown() })
}

// extraMatches compares the metadata of an emitted UserAction with what aucoalesce yields for
// all the records of the kernel event.
func extraMatches(ce *aucoalesce.Event, e *OutEvent) (want, got string, same bool) {
	w := map[string]any{"action": ce.Summary.Action, "how": ce.Summary.How, "object": ce.Summary.Object}
	if len(ce.Process.Args) > 0 {
		w["process_args"] = ce.Process.Args
	}
	wj, _ := json.Marshal(w)
	gj, _ := json.Marshal(e.Extra)
	var wn, gn any
	json.Unmarshal(wj, &wn)
	json.Unmarshal(gj, &gn)
	return string(wj), string(gj), reflect.DeepEqual(wn, gn)
}

// ---- C15 (a): reassembler -> correlator boundary ----

type countingAuditor struct {
	events []*aucoalesce.Event
	failAt int
}

//go:norace
func (c *countingAuditor) AuditdEvent(e *aucoalesce.Event) error {
	simrt.Point("auditor")
	c.events = append(c.events, e)
	if c.failAt > 0 && len(c.events) == c.failAt {
		return errors.New("injected correlator failure")
	}
	return nil
}

var _ sessiontracker.Auditor = &countingAuditor{}

func scnC15Boundary(rc *RunCtx) {
	t := rc.Spec
	k := NewKaudit()
	switch t.Choose(8, "kernel.clock") {
	case 6:
		k = NewKauditAt(time.Unix(9999999999, 0)) // a host whose clock is centuries ahead (year 2286)
	case 7:
		k = NewKauditAt(time.Unix(86400, 0)) // a host whose clock was never set (1970)
	}
	ne := 2 + t.Choose(2, "nevents")
	var evs []*KEvent
	unterminated := 0
	for i := 0; i < ne; i++ {
		var e *KEvent
		switch t.Choose(5, "kind") {
		case 0:
			e = k.UserMsg("USER_START", "55", 100+i, 1000, t.Choose(2, "ok") == 1, 0)
		case 4:
			e = k.AVC("55", 100+i, 1000)
		default:
			e = k.Exec("55", 100+i, 1000, cmds[t.Choose(len(cmds), "cmd")], t.Choose(3, "ok") != 0, t.Choose(4, "execve") != 0, t.Choose(2, "eoe") == 0)
		}
		if len(e.Lines) > 1 && t.Choose(4, "unterminated") == 3 {
			// no EOE and no PROCTITLE: the group is complete only when the reassembler times it out
			e.Unterminated()
			unterminated++
		}
		evs = append(evs, e)
	}
	lens := make([]int, ne)
	for i, e := range evs {
		lens[i] = len(e.Lines)
	}
	order := mergeOrder(t, lens)
	var lines []string
	idx := make([]int, ne)
	interleaved := false
	last := -1
	open := map[int]bool{}
	for _, ei := range order {
		if last >= 0 && ei != last && open[last] {
			interleaved = true
		}
		lines = append(lines, evs[ei].Lines[idx[ei]])
		idx[ei]++
		open[ei] = idx[ei] < lens[ei]
		last = ei
		if t.Choose(8, "empty") == 0 {
			lines = append(lines, "")
		}
	}
	if interleaved {
		rc.Sim.Count("reassembler_interleaved")
	}
	ctx, cancel := context.WithCancel(context.Background())
	rc.Cleanup(cancel)
	au := &countingAuditor{}
	errs := make(chan error, 1)
	maxInFlight, timeout, interval := auditd.SimReassemblerParams()
	reass, err := libaudit.NewReassembler(maxInFlight, timeout, auditd.SimNewReassemblerCB(au, errs, time.Time{}))
	if err != nil {
		rc.Abort("reassembler: %v", err)
		return
	}
	ch := make(chan string, len(lines)+1)
	res := &doneFlag{}
	rc.Sim.Spawn("parse", func() { res.set(auditd.SimParseAuditLogs(ctx, ch, reass)) })
	rc.Sim.Spawn("maintain", func() { auditd.SimMaintain(ctx, reass, interval) })
	emptyAsNewline := t.Choose(2, "emptyform") == 1
	// the stream may be quiet for a while before these records arrive
	quiet := []time.Duration{0, 700 * time.Millisecond, 3 * time.Second, 1300 * time.Millisecond}[t.Choose(4, "quiet.before")]
	if quiet > 0 {
		rc.Sim.Policy = simrt.PolicyRunToBlock
		for el := time.Duration(0); el < quiet; el += 100 * time.Millisecond {
			rc.Sim.RunUntil(func() bool { return res.v }, 20000)
			time.Sleep(100 * time.Millisecond)
		}
	}
	if unterminated > 0 {
		rc.Sim.Count("reassembler_unterminated_group")
	}
	for _, l := range lines {
		if l == "" && !emptyAsNewline {
			ch <- ""
		} else if l == "" {
			ch <- "" // an empty record arrives as an empty string at this level
		} else {
			ch <- l + "\n"
		}
	}
	pipelinePolicy(rc)
	// run until everything is consumed, then the reassembler's own time-out plus two maintenance
	// intervals (and a margin) for groups that only the time-out completes
	for i, n := 0, int((timeout+2*interval)/(100*time.Millisecond))+15; i < n; i++ {
		if why := rc.Sim.RunUntil(func() bool { return res.v }, 200000); why == "budget" || why == "stop" {
			break
		}
		time.Sleep(100 * time.Millisecond)
	}
	rc.CaseKey(hashStr(lines...))
	rc.R.NonTrivial = interleaved
	rc.R.Sample = map[string]any{"kernel_events": ne, "records": len(lines), "merge_order": order, "interleaved": interleaved, "unterminated_groups": unterminated, "quiet_before_ms": quiet.Milliseconds(), "handed_to_correlator": len(au.events)}
	if res.v {
		rc.Fail("C15", "parser-stopped", "the audit parser stopped with %v on a well-formed stream", res.err)
		return
	}
	select {
	case e := <-errs:
		rc.Fail("C15", "reassembly-error", "reassembler callback reported %v on a well-formed stream", e)
		return
	default:
	}
	if len(au.events) != ne {
		class := "event-lost"
		if len(au.events) > ne {
			class = "event-split"
		}
		rc.Fail("C15", class, "%d kernel events (%d records, merge order %v) were handed to the correlator as %d events", ne, len(lines), order, len(au.events))
		return
	}
	for _, ke := range evs {
		want, _ := ke.Coalesce()
		found := false
		for _, g := range au.events {
			if g.Timestamp.Equal(ke.TS) {
				found = true
				wj, _ := json.Marshal(want)
				gj, _ := json.Marshal(g)
				if string(wj) != string(gj) {
					rc.Fail("C15", "records-not-grouped", "kernel event seq %d: the event handed to the correlator differs from the coalesced records of that event:\ngot  %s\nwant %s", ke.Seq, truncate(string(gj), 1200), truncate(string(wj), 1200))
					return
				}
			}
		}
		if !found {
			rc.Fail("C15", "event-lost", "kernel event seq %d never reached the correlator", ke.Seq)
			return
		}
	}
}

// ---- C15 (b): failure propagation through the real Read ----

var c15Faults = []string{"malformed-line", "malformed-line", "malformed-line", "write-error", "write-error", "write-error",
	"invalid-login-pid0", "invalid-login-nil-source", "invalid-login-empty-cred", "bad-pid-in-login-record", "two-failures", "none",
	"cancel-mid-stream", "write-error-once", "flush-transient-write-error", "flush-transient-write-error"}

func scnC15Faults(rc *RunCtx) {
	t := rc.Spec
	fault := c15Faults[rc.Sub%len(c15Faults)]
	k := NewKaudit()
	pid := 8800
	login := GenLogin(t, pid, 1)
	var evs []*KEvent
	evs = append(evs, k.Login("410", pid, 1000))
	n := 2 + t.Choose(8, "nevents")
	for i := 0; i < n; i++ {
		evs = append(evs, GenAction(t, k, "410", pid, 1000))
	}
	if t.Choose(2, "ends") == 1 {
		// the session ends inside the stream: its last event is the credential disposal
		evs = append(evs, k.UserMsg("CRED_DISP", "410", pid, 1000, true, 0))
	}
	var lines []string
	evEnd := []int{} // index in lines after which event i is complete
	for _, e := range evs {
		lines = append(lines, e.Lines...)
		evEnd = append(evEnd, len(lines))
	}
	ctx, cancel := context.WithCancel(context.Background())
	rc.Cleanup(cancel)
	rec := &Recorder{Sim: rc.Sim}
	audits := make(chan string, 2*len(lines)+80)
	logins := make(chan common.RemoteUserLogin)
	ap := &auditd.Auditd{Audits: audits, Logins: logins, EventW: auditevent.NewAuditEventWriter(rec), Health: health.NewHealth()}
	res := &doneFlag{}
	rc.Sim.Spawn("auditd.Read", func() { res.set(ap.Read(ctx)) })
	// session bound before its first record (hold queue never used), except for the fault that
	// is about the hold-queue flush itself
	bound := &doneFlag{}
	if fault != "flush-transient-write-error" {
		rc.Sim.Spawn("world.login", func() { simrt.ChanSend(logins, MakeRUL(login, time.Now()), "world.login"); bound.set(nil) })
		rc.Sim.Policy = simrt.PolicyRunToBlock
		runToStepOrState(rc, func() bool { return bound.v }, -1, 500)
	}
	pipelinePolicy(rc)
	pos := -1
	badLine := ""
	wantEvents := len(evs)
	switch fault {
	case "malformed-line":
		pos = t.Choose(len(lines)+1, "pos")
		badLine = []string{"type=SYSCALL this is not an audit record", "garbage", "type=USER_START msg=audit(xx): broken", "audit(1.1:1): no type",
			" ", "\t", "\r", "   \t ", "\x00", "type=", "type=UNKNOWN[1420] msg=audit(16738860", "type=UNKNOWN[14xx] msg=audit(1673886030.123:77): x=1"}[t.Choose(12, "bad")]
		wantEvents = 0
		for i, end := range evEnd {
			if end <= pos {
				wantEvents = i + 1
			}
		}
		// the records of a group that were received before the bad line were parsed: they, too,
		// reach the correlator (the reassembler is flushed when the processor stops); counted
		// when the received part carries the session (it is then written as a UserAction)
		if wantEvents < len(evs) && fault == "malformed-line" {
			start := 0
			if wantEvents > 0 {
				start = evEnd[wantEvents-1]
			}
			for _, l := range lines[start:pos] {
				if strings.Contains(l, " ses=410 ") || strings.HasSuffix(l, " ses=410") {
					wantEvents++
					rc.Sim.Count("c15.partial_group_before_fault")
					break
				}
			}
		}
		lines = append(lines[:pos], append([]string{badLine}, lines[pos:]...)...)
		rc.Sim.Count("line.malformed_audit")
	case "write-error", "write-error-once":
		// persistent (every write from the k-th on fails) or a single failing write
		rec.FailAt = 1 + t.Choose(len(evs), "k")
		rec.FailAll = fault == "write-error"
		wantEvents = rec.FailAt - 1
		if fault == "write-error-once" && t.Choose(2, "busy.loop") == 1 {
			// the processor's own loop is busy taking logins of other sshd processes while the
			// failing write happens on the parser's side
			rc.Sim.Count("c15.logins_during_write_failure")
			rc.Sim.Spawn("world.other-logins", func() {
				for i := 0; i < 3; i++ {
					c0, c1 := simrt.Send(logins).V(MakeRUL(GenLogin(simrt.NewReplayTape(uint64(i+1), nil), pid+10+i, 20+i), time.Now())), simrt.Recv(ctx.Done())
					if simrt.Select("world.other-logins", false, c0, c1) != 0 {
						return
					}
				}
			})
		}
	case "bad-pid-in-login-record":
		// a second session whose LOGIN record has an unparsable PID
		bad := k.Login("411", 1, 1001)
		// not a decimal number: letters, or what only a "base 0" parser would accept
		badPID := []string{"zzz", "0x61af", "0b101", "0o17", "25_007", "1e3"}[t.Choose(6, "badpid")]
		bad.Lines[0] = strings.Replace(bad.Lines[0], "pid=1 ", "pid="+badPID+" ", 1)
		pos = t.Choose(len(evEnd), "pos")
		lines = append(lines[:evEnd[pos]], append([]string{bad.Lines[0]}, lines[evEnd[pos]:]...)...)
		wantEvents = pos + 1
	case "two-failures":
		rec.FailAt = 1 + t.Choose(len(evs), "k")
		rec.FailAll = true
		pos = t.Choose(len(lines)+1, "pos")
		badLine = "garbage line"
		lines = append(lines[:pos], append([]string{badLine}, lines[pos:]...)...)
		wantEvents = -1
	}
	// an invalid login may also be one for a session that is already waiting for its login
	invalidPID := pid + 1
	if strings.HasPrefix(fault, "invalid-login") && fault != "invalid-login-pid0" && t.Choose(2, "invalid.target") == 1 {
		invalidPID = pid + 100
		waiting := k.Login("412", invalidPID, 1001)
		lines = append(append([]string{}, waiting.Lines...), lines...)
		rc.Sim.Count("login.invalid.for-waiting-session")
	}
	// fault-free runs: in half of them the records of one compound event arrive in two bursts,
	// separated by a pause well inside the reassembler's time-out, with a record of another
	// event of the session in between
	pauseAt, pause := -1, time.Duration(0)
	if fault == "none" && t.Choose(2, "none.pause") == 1 {
		var cand []int
		for i, e := range evs {
			if e.NRec >= 3 {
				cand = append(cand, i)
			}
		}
		if len(cand) > 0 {
			j := cand[t.Choose(len(cand), "none.pause.ev")]
			cut := evEnd[j] - evs[j].NRec + 1 + t.Choose(evs[j].NRec-1, "none.pause.cut")
			_, timeout, _ := auditd.SimReassemblerParams()
			pause = timeout*3/10 + time.Duration(t.Choose(int(timeout/2/time.Millisecond), "none.pause.ms"))*time.Millisecond
			other := k.UserMsg("USER_START", "410", pid, 1000, true, 0)
			evs = append(evs, other)
			lines = append(lines[:cut], append([]string{other.Lines[0]}, lines[cut:]...)...)
			pauseAt = cut
			rc.Sim.Count("c15.group_split_by_pause")
		}
	}
	for i, l := range lines {
		if i == pauseAt {
			rc.Sim.Policy = simrt.PolicyRunToBlock
			runToStepOrState(rc, func() bool { return res.v || len(audits) == 0 }, -1, 2000)
			for el := time.Duration(0); el < pause && !res.v; el += 100 * time.Millisecond {
				time.Sleep(100 * time.Millisecond)
				rc.Sim.RunUntil(func() bool { return res.v }, 50000)
			}
			pipelinePolicy(rc)
		}
		audits <- l + "\n"
	}
	if fault == "flush-transient-write-error" && t.Choose(3, "twin.waiting") == 2 {
		// a second session opened by the same sshd PID waits for its login as well (its records
		// follow on the stream); whichever of the two the login releases, the failed write counts
		tw := []*KEvent{k.Login("413", pid, 1000)}
		for len(tw) < len(evs) {
			tw = append(tw, GenAction(t, k, "413", pid, 1000))
		}
		for _, e := range tw {
			for _, l := range e.Lines {
				audits <- l + "\n"
			}
		}
		rc.Sim.Count("c15.two_sessions_waiting_for_one_pid")
	}
	if fault == "flush-transient-write-error" {
		// every record is held; then the login arrives and exactly one write of the flush fails
		runToStepOrState(rc, func() bool { return res.v || len(audits) == 0 }, -1, 3000)
		quietFor(rc, 500*time.Millisecond)
		rec.FailAt = 1 + t.Choose(len(evs)-1, "k")
		rec.FailAll = false
		wantEvents = rec.FailAt - 1
		rc.Sim.Spawn("world.login", func() {
			c0, c1 := simrt.Send(logins).V(MakeRUL(login, time.Now())), simrt.Recv(ctx.Done())
			simrt.Select("world.login", false, c0, c1)
			bound.set(nil)
		})
	}
	var invalid *common.RemoteUserLogin
	if strings.HasPrefix(fault, "invalid-login") {
		r := MakeRUL(GenLogin(t, invalidPID, 2), time.Now())
		switch fault {
		case "invalid-login-pid0":
			r.PID = 0
		case "invalid-login-nil-source":
			r.Source = nil
		case "invalid-login-empty-cred":
			r.CredUserID = ""
		}
		invalid = &r
		at := t.Choose(60, "login.step")
		runToStepOrState(rc, func() bool { return res.v }, at, 0)
		sent := &doneFlag{}
		rc.Sim.Spawn("world.badlogin", func() {
			c0, c1 := simrt.Send(logins).V(*invalid), simrt.Recv(ctx.Done())
			simrt.Select("world.badlogin", false, c0, c1)
			sent.set(nil)
		})
		rc.Sim.Count("login.invalid." + strings.TrimPrefix(fault, "invalid-login-"))
		wantEvents = -1
	}
	if fault == "cancel-mid-stream" {
		// the processor is told to stop at a taped step while records are queued and an output
		// write may be in progress: whatever it took off the stream by the time it has returned
		// was parsed, so it reaches the correlator (the reassembler is flushed on the way out)
		runToStepOrState(rc, func() bool { return res.v }, t.Choose(400, "cancel.step"), 0)
		cancel()
		rc.Sim.Count("ctx.cancel")
		wantEvents = -1
	}
	// settle: Read must return within 1 simulated second once the fault has been consumed
	returned := false
	for i := 0; i < 40; i++ {
		why := rc.Sim.RunUntil(func() bool { return res.v }, 300000)
		if why == "stop" {
			returned = true
			break
		}
		if why == "budget" {
			break
		}
		if fault == "none" && len(audits) == 0 && i >= 30 {
			break
		}
		time.Sleep(100 * time.Millisecond)
	}
	evAtReturn := len(rec.Events)
	rc.CaseKey(hashStr(lines...), fault, pos, rec.FailAt)
	rc.R.NonTrivial = fault == "none" || pos != len(lines)-1
	rc.R.Sample = map[string]any{"fault": fault, "kernel_events": len(evs), "lines": len(lines), "position": pos, "write_fails_at_event": rec.FailAt, "emitted": len(rec.Events), "returned": returned, "error": fmt.Sprint(res.err)}
	if fault == "none" {
		if returned {
			rc.Fail("C15", "stopped-without-fault", "Read returned %v on a well-formed stream", res.err)
		} else if len(rec.Events) != len(evs) {
			rc.Fail("C15", "event-lost", "%d kernel events of a bound session produced %d UserActions", len(evs), len(rec.Events))
		} else {
			// every record of a kernel event contributed to the one event handed on: what was
			// emitted for it is what all its records coalesce to
			for _, e := range rec.Events {
				for _, ke := range evs {
					if !ke.TS.Equal(e.LoggedAt) {
						continue
					}
					ce, err := ke.Coalesce()
					if err != nil {
						rc.Abort("world model: %v", err)
						return
					}
					if want, got, same := extraMatches(ce, e); !same {
						rc.Fail("C15", "records-not-grouped", "kernel event seq %d (%d records, pause of %v inside: %v): emitted with %s, all its records coalesce to %s", ke.Seq, ke.NRec, pause, pauseAt >= 0, got, want)
						return
					}
				}
			}
		}
		return
	}
	if fault == "cancel-mid-stream" {
		if !returned {
			rc.Fail("C15", "no-return-after-cancel", "Read did not return after cancellation: %v", rc.Sim.Live())
			return
		}
		consumed := len(lines) - len(audits)
		want := 0
		for i, end := range evEnd {
			start := end - evs[i].NRec
			for j := start; j < end && j < consumed; j++ {
				if strings.Contains(lines[j], " ses=410 ") || strings.HasSuffix(lines[j], " ses=410") {
					want++
					break
				}
			}
		}
		rc.R.NonTrivial = consumed > 0 && consumed < len(lines)
		if len(rec.Events) < want {
			rc.Fail("C15", "consumed-records-lost", "%d of %d lines had been taken off the audit stream when Read returned after cancellation; they belong to %d events of the bound session, but only %d were handed on and written", consumed, len(lines), want, len(rec.Events))
		}
		return
	}
	if !returned && (fault == "write-error" || fault == "write-error-once" || fault == "flush-transient-write-error") && rec.Calls < rec.FailAt {
		// the write that was to fail never happened: the failure did not occur in this run
		rc.Sim.Count("c15.fault_not_fired")
		rc.R.NonTrivial = false
		return
	}
	if !returned {
		rc.Fail("C15", "failure-dropped", "fault %s (position %d, write failing at event %d): the audit processor kept running instead of stopping with an error; %d events emitted; alive: %v",
			fault, pos, rec.FailAt, len(rec.Events), rc.Sim.Live())
		return
	}
	if res.err == nil {
		rc.Fail("C15", "nil-error", "fault %s: Read returned nil", fault)
		return
	}
	msg := res.err.Error()
	switch fault {
	case "malformed-line":
		if !strings.Contains(msg, badLine) {
			rc.Fail("C15", "error-does-not-identify-line", "the error for the unparsable line %q does not contain it: %q", badLine, msg)
			return
		}
	case "write-error", "write-error-once", "flush-transient-write-error":
		var ee *encodeErr
		if !errors.As(res.err, &ee) {
			rc.Fail("C15", "wrong-error", "a write failure at event %d stopped Read with %q, which does not wrap the write error", rec.FailAt, msg)
			return
		}
	case "bad-pid-in-login-record":
		var se *sessiontracker.SessionTrackerError
		if !errors.As(res.err, &se) || !se.ParsePIDFailed() {
			rc.Fail("C15", "wrong-error", "an unparsable PID in a LOGIN record stopped Read with %q, expected the correlator's parse-PID failure", msg)
			return
		}
	case "invalid-login-pid0", "invalid-login-nil-source", "invalid-login-empty-cred":
		var se *sessiontracker.SessionTrackerError
		var ee *encodeErr
		if !(errors.As(res.err, &se) && se.RemoteLoginFailed()) && !errors.As(res.err, &ee) {
			rc.Fail("C15", "wrong-error", "an invalid login stopped Read with %q, expected the correlator's remote-login failure", msg)
			return
		}
	}
	if wantEvents >= 0 && len(rec.Events) < wantEvents {
		rc.Fail("C15", "event-lost-before-fault", "fault %s at position %d: %d events were complete before the fault but only %d were emitted", fault, pos, wantEvents, len(rec.Events))
		return
	}
	quietFor(rc, 3*time.Second)
	if len(rec.Events) != evAtReturn {
		rc.Fail("C15", "emission-after-return", "%d events emitted after Read returned", len(rec.Events)-evAtReturn)
	}
}
