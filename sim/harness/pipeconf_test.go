package verifsim

import (
	"errors"
	"fmt"
	"io"
	"os"
	"path/filepath"
	"strings"
	"sync/atomic"
	"syscall"
	"testing"
	"testing/synctest"
	"time"

	"github.com/metal-toolbox/audito-maldito/internal/simrt"
)

// TestPipeConformance runs the same scripts against a real kernel FIFO (real os.OpenFile,
// real goroutines, real time) and against SimPipe (under the simulator) and compares what the
// reader observes. It validates the stub, it decides no property. A disagreement fails the
// self-test (exit 2 of setup), never a check.

type pipeObs []string

// script steps (writer side), interpreted identically for both implementations
type pstep struct {
	op   string // open | write | close | wait
	data string
}

type pscript struct {
	name       string
	steps      []pstep
	readBuf    int  // reader buffer size
	readerQuit bool // reader side closes its file while blocked (after all steps)
	reopens    int  // at end-of-stream the reader closes the FIFO and opens it again (this many times)
}

var pipeScripts = []pscript{
	{name: "open-blocks-until-writer", steps: []pstep{{"wait", ""}, {"open", ""}, {"write", "hello\n"}, {"close", ""}}, readBuf: 64},
	{name: "data-then-eof", steps: []pstep{{"open", ""}, {"write", "a\nb\n"}, {"close", ""}}, readBuf: 64},
	{name: "partial-reads", steps: []pstep{{"open", ""}, {"write", "0123456789"}, {"close", ""}}, readBuf: 4},
	{name: "read-blocks-until-data", steps: []pstep{{"open", ""}, {"wait", ""}, {"write", "late\n"}, {"wait", ""}, {"close", ""}}, readBuf: 64},
	{name: "eof-only-after-last-writer", steps: []pstep{{"open", ""}, {"open", ""}, {"write", "x"}, {"close", ""}, {"wait", ""}, {"write", "y"}, {"close", ""}}, readBuf: 64},
	{name: "close-unblocks-read", steps: []pstep{{"open", ""}, {"write", "z"}, {"wait", ""}}, readBuf: 64, readerQuit: true},
	{name: "empty-stream", steps: []pstep{{"open", ""}, {"close", ""}}, readBuf: 64},
	{name: "reopen-after-eof-waits-for-next-writer", steps: []pstep{{"open", ""}, {"write", "a\n"}, {"close", ""}, {"wait", ""}, {"wait", ""}, {"open", ""}, {"write", "b\n"}, {"close", ""}}, readBuf: 64, reopens: 1},
	{name: "reopen-after-eof-no-writer-blocks", steps: []pstep{{"open", ""}, {"write", "a\n"}, {"close", ""}, {"wait", ""}}, readBuf: 64, reopens: 1, readerQuit: true},
}

func classify(err error) string {
	switch {
	case err == nil:
		return "ok"
	case errors.Is(err, io.EOF):
		return "EOF"
	case errors.Is(err, os.ErrClosed):
		return "closed"
	default:
		return "err:" + err.Error()
	}
}

// normalise merges consecutive reads (the kernel and the stub may legally split data
// differently) but keeps block/EOF/closed structure.
func normalise(o pipeObs) string {
	var out []string
	acc := ""
	flush := func() {
		if acc != "" {
			out = append(out, "data:"+acc)
			acc = ""
		}
	}
	for _, x := range o {
		if strings.HasPrefix(x, "data:") {
			acc += strings.TrimPrefix(x, "data:")
			continue
		}
		flush()
		out = append(out, x)
	}
	flush()
	return strings.Join(out, " | ")
}

func runRealFIFO(t *testing.T, sc pscript) string {
	dir, err := os.MkdirTemp(*fTmp, "pipeconf-")
	if err != nil {
		t.Fatal(err)
	}
	defer os.RemoveAll(dir)
	path := filepath.Join(dir, "fifo")
	if err := syscall.Mkfifo(path, 0o600); err != nil {
		t.Fatal(err)
	}
	var obs pipeObs
	opened := make(chan struct{})
	done := make(chan struct{})
	var rf *os.File
	var reopening atomic.Bool
	go func() {
		defer close(done)
		f, err := os.OpenFile(path, os.O_RDONLY, os.ModeNamedPipe)
		if err != nil {
			obs = append(obs, "open:"+classify(err))
			close(opened)
			return
		}
		rf = f
		close(opened)
		buf := make([]byte, sc.readBuf)
		reopens := sc.reopens
		for {
			n, err := f.Read(buf)
			if n > 0 {
				obs = append(obs, "data:"+string(buf[:n]))
			}
			if err != nil {
				obs = append(obs, "read:"+classify(err))
				if errors.Is(err, io.EOF) && reopens > 0 {
					reopens--
					f.Close()
					reopening.Store(true)
					f, err = os.OpenFile(path, os.O_RDONLY, os.ModeNamedPipe)
					reopening.Store(false)
					if err != nil {
						obs = append(obs, "reopen:"+classify(err))
						return
					}
					obs = append(obs, "reopened")
					continue
				}
				return
			}
		}
	}()
	var writers []*os.File
	openBlockedSeen := false
	for _, st := range sc.steps {
		switch st.op {
		case "wait":
			time.Sleep(60 * time.Millisecond)
			if len(writers) == 0 {
				select {
				case <-opened:
				default:
					openBlockedSeen = true
				}
			}
		case "open":
			w, err := os.OpenFile(path, os.O_WRONLY, 0)
			if err != nil {
				t.Fatal(err)
			}
			writers = append(writers, w)
			<-opened
		case "write":
			writers[len(writers)-1].Write([]byte(st.data))
			time.Sleep(30 * time.Millisecond)
		case "close":
			writers[len(writers)-1].Close()
			writers = writers[:len(writers)-1]
			time.Sleep(30 * time.Millisecond)
		}
	}
	if sc.readerQuit && !reopening.Load() {
		rf.Close()
	}
	stuckInOpen := false
	select {
	case <-done:
	case <-time.After(time.Second):
		stuckInOpen = reopening.Load()
		if !stuckInOpen {
			obs = append(obs, "reader-still-blocked")
		}
	}
	for _, w := range writers {
		w.Close()
	}
	if stuckInOpen {
		// release the reader blocked in open(2)
		if w, err := os.OpenFile(path, os.O_WRONLY, 0); err == nil {
			w.Close()
			<-done
		}
		obs = obs[:0:0]
		return "reader blocked in re-open"
	}
	pre := ""
	if openBlockedSeen {
		pre = "open-blocked | "
	}
	return pre + normalise(obs)
}

type obsBox struct {
	obs       pipeObs
	done      bool
	f         *simrt.File
	opened    bool
	reopening bool
}

//go:norace
func (o *obsBox) add(s string) { o.obs = append(o.obs, s) }

func runSimPipe(t *testing.T, sc pscript, seed uint64) string {
	var result string
	synctest.Test(t, func(t *testing.T) {
		sim := simrt.New(simrt.NewTape(seed))
		sim.Quiesce = synctest.Wait
		sim.Policy = simrt.PolicyRandom
		sim.Install()
		defer sim.Uninstall()
		path := "/sim/conf-fifo"
		pipe := sim.AddPipe(path)
		box := &obsBox{}
		sim.Spawn("reader", func() {
			f, err := simrt.OpenFile(path, os.O_RDONLY, os.ModeNamedPipe)
			if err != nil {
				box.add("open:" + classify(err))
				box.done = true
				return
			}
			box.f, box.opened = f, true
			buf := make([]byte, sc.readBuf)
			reopens := sc.reopens
			for {
				n, err := f.Read(buf)
				if n > 0 {
					box.add("data:" + string(buf[:n]))
				}
				if err != nil {
					box.add("read:" + classify(err))
					if errors.Is(err, io.EOF) && reopens > 0 {
						reopens--
						f.Close()
						box.reopening = true
						f, err = simrt.OpenFile(path, os.O_RDONLY, os.ModeNamedPipe)
						box.reopening = false
						if err != nil {
							box.add("reopen:" + classify(err))
							box.done = true
							return
						}
						box.f = f
						box.add("reopened")
						continue
					}
					box.done = true
					return
				}
			}
		})
		var writers []*simrt.PipeWriter
		openBlockedSeen := false
		quiesce := func() { sim.RunUntil(nil, 10000) }
		for _, st := range sc.steps {
			switch st.op {
			case "wait":
				quiesce()
				time.Sleep(60 * time.Millisecond)
				quiesce()
				if len(writers) == 0 && !box.opened {
					openBlockedSeen = true
				}
			case "open":
				writers = append(writers, pipe.OpenWriter())
				quiesce()
			case "write":
				writers[len(writers)-1].Write([]byte(st.data))
				quiesce()
			case "close":
				writers[len(writers)-1].Close()
				writers = writers[:len(writers)-1]
				quiesce()
			}
		}
		if sc.readerQuit && !box.reopening {
			box.f.Close()
		}
		quiesce()
		if !box.done && !box.reopening {
			box.add("reader-still-blocked")
		}
		pre := ""
		if openBlockedSeen {
			pre = "open-blocked | "
		}
		result = pre + normalise(box.obs)
		if box.reopening {
			result = "reader blocked in re-open"
		}
		sim.Drain()
		for _, w := range writers {
			w.Close()
		}
		if !box.done {
			pipe.OpenWriter().Close()
			if box.f != nil {
				box.f.Close()
			}
		}
		synctest.Wait()
	})
	return result
}

func TestPipeConformance(t *testing.T) {
	for _, sc := range pipeScripts {
		real := runRealFIFO(t, sc)
		for seed := uint64(1); seed <= 5; seed++ {
			sim := runSimPipe(t, sc, seed)
			if sim != real {
				t.Errorf("script %s (seed %d): SimPipe and the kernel FIFO disagree:\n  sim : %s\n  real: %s", sc.name, seed, sim, real)
			}
		}
		fmt.Printf("pipe-conformance %-28s %s\n", sc.name, real)
	}
}
