package verifsim

import (
	"fmt"
	"strings"

	"github.com/metal-toolbox/audito-maldito/internal/simrt"
)

// SshdMsg is one message printed by the sshd world model (format strings taken from the
// OpenSSH auth.c excerpts quoted in processors/sshd/openssh_regex.go).
type SshdMsg struct {
	Form     string     `json:"form"`
	PID      string     `json:"pid"`
	Msg      string     `json:"msg"`
	Accepted bool       `json:"accepted"`
	Login    *LoginSpec `json:"login,omitempty"`
}

// Keywords are the literal prefixes of the recognised OpenSSH messages (written down here
// from the format strings, not read from the code under test).
var sshdKeywords = []string{
	"Accepted publickey", "Accepted password", "Certificate invalid", "Invalid user", "User ",
	"ROOT LOGIN REFUSED FROM", "Authentication refused for", "Nasty PTR record",
	"reverse mapping checking getaddrinfo for", "Address ", "maximum authentication attempts exceeded for",
	"Authentication key", "Error checking authentication key", "Failed password for",
}

var sshdForms = []string{
	"accepted-key", "accepted-keypad", "accepted-cert", "accepted-password", "cert-invalid", "invalid-user",
	"user-allowusers", "user-shell-missing", "user-shell-noexec", "user-denyusers", "user-nogroup", "user-denygroups", "user-allowgroups",
	"root-refused", "bad-owner", "nasty-ptr", "reverse-mapping", "not-map-back", "max-attempts", "revoked-key", "revoked-key-err", "failed-password",
}

var shells = []string{"/bin/bash", "/usr/bin/zsh", "/opt/my shell/sh", "/sbin/nologin"}
var paths = []string{"/home/alice/.ssh/authorized_keys", "/etc/ssh/revoked_keys", "/home/bob smith/.ssh/authorized_keys", "/var/lib/keys/r.krl"}
var dnsNames = []string{"host.example.org", "evil.example.com.", "a-b.c.d", "xn--bcher-kva.example"}
var keyTypes = []string{"ED25519", "RSA", "ECDSA", "ED25519-CERT", "RSA-CERT"}
var certReasons = []string{"expired", "name is not a listed principal", "not yet valid", "Certificate invalid: nested", "bad  spacing inside"}

// hostileNames lets GenSshdMsg draw client-chosen names that read like other log messages (set
// by scenarios whose oracle is differential and does not assume that the message is recognised).
var hostileNames bool

// GenSshdMsg draws a message of the given form (or a random form if form == "").
func GenSshdMsg(t *simrt.Tape, form string, uniq int) *SshdMsg {
	if form == "" {
		form = sshdForms[t.Choose(len(sshdForms), "form")]
	}
	pid := fmt.Sprint(1000 + uniq*7 + t.Choose(5000, "pid"))
	user := userName(t, uniq)
	ip := ips[t.Choose(len(ips), "ip")]
	port := t.Choose(65536, "port")
	m := &SshdMsg{Form: form, PID: pid}
	// unusually long messages: one field is stretched so that the message (or the framed record)
	// lands around sshd's own message limit, around the ingester's read buffer, or far beyond both
	target := 0
	switch t.Choose(8, "long") {
	case 4, 5:
		target = 990 + t.Choose(60, "long.len")
	case 6:
		target = 4060 + t.Choose(60, "long.len")
	case 7:
		target = 1100 + t.Choose(20000, "long.len")
	}
	mark := ""
	if target > 0 {
		mark = stretchMark
	}
	userPlain := user
	if hostileNames && !strings.HasPrefix(form, "accepted-") {
		// a client chooses the name it presents: names with blanks that read like other sshd or
		// PAM chatter ("ssh -l 'x Disconnected from y' host")
		if h := t.Choose(8, "user.hostile"); h >= 5 {
			user = []string{"x Disconnected from y", "pam_unix(sshd:auth): z", "q Connection closed by 10.0.0.1 port 22"}[h-5] + fmt.Sprint(uniq)
		}
	}
	user += mark
	fp := "SHA256:" + b64ish(t, 43)
	if t.Choose(6, "md5fp") == 0 {
		fp = "MD5:aa:bb:cc:dd:ee:ff:00:11:22:33:44:55:66:77:88:99"
	}
	switch form {
	case "accepted-key", "accepted-keypad", "accepted-cert", "accepted-password":
		var p int
		fmt.Sscan(pid, &p)
		l := GenLogin(t, p, uniq)
		l.User, l.IP, l.Port = userPlain, ip, port
		switch form {
		case "accepted-key":
			l.Form = "key"
		case "accepted-keypad":
			l.Form, l.Pad = "keypad", "extra  info"
		case "accepted-cert":
			l.Form = "cert"
			if l.KeyID == "" {
				l.KeyID = fmt.Sprintf("user%d@example.com", uniq)
			}
			switch t.Choose(5, "keyid.odd") {
			case 4:
				l.KeyID = "" // ssh-keygen -I '': sshd prints "ID  (serial N)"
			case 0:
				l.KeyID = fmt.Sprintf("ops team (serial %d) x", uniq)
			case 1:
				l.KeyID = fmt.Sprintf("ops[prod]: deploy %d", uniq) // what a syslog tag looks like, inside the key id
			case 2:
				l.KeyID = fmt.Sprintf("ci-job[%d]", 40000+uniq) // a bracketed number, as in "sshd[4242]:"
			case 3:
				l.KeyID = fmt.Sprintf("build  bot   %d", uniq) // runs of blanks inside the key id are part of it
			}
			l.Serial = uint64(t.Choose(1<<30, "serial"))
			// serial numbers at and beyond the edge of 64 bits, and with leading zeros
			l.SerialText = []string{"", "18446744073709551615", "18446744073709551616", "0007", "340282366920938463463374607431768211455", ""}[t.Choose(6, "serial.odd")]
			if l.CAFP == "" {
				l.CAFP = b64ish(t, 43)
			}
		case "accepted-password":
			l.Form = "password"
		}
		if target > len(l.Message()) {
			ext := strings.Repeat("k", target-len(l.Message()))
			if l.Form == "cert" && t.Choose(2, "long.field") == 1 {
				l.KeyID += ext
			} else {
				l.User += ext
			}
		}
		m.Login, m.Accepted, m.Msg = l, true, l.Message()
	case "cert-invalid":
		m.Msg = "Certificate invalid: " + certReasons[t.Choose(len(certReasons), "reason")] + mark
	case "invalid-user":
		m.Msg = fmt.Sprintf("Invalid user %s from %s port %d", user, ip, port)
	case "user-allowusers":
		m.Msg = fmt.Sprintf("User %s from %s not allowed because not listed in AllowUsers", user, ip)
	case "user-shell-missing":
		m.Msg = fmt.Sprintf("User %s not allowed because shell %s does not exist", user, shells[t.Choose(len(shells), "shell")])
	case "user-shell-noexec":
		m.Msg = fmt.Sprintf("User %s not allowed because shell %s is not executable", user, shells[t.Choose(len(shells), "shell")])
	case "user-denyusers":
		m.Msg = fmt.Sprintf("User %s from %s not allowed because listed in DenyUsers", user, ip)
	case "user-nogroup":
		m.Msg = fmt.Sprintf("User %s from %s not allowed because not in any group", user, ip)
	case "user-denygroups":
		m.Msg = fmt.Sprintf("User %s from %s not allowed because a group is listed in DenyGroups", user, ip)
	case "user-allowgroups":
		m.Msg = fmt.Sprintf("User %s from %s not allowed because none of user's groups are listed in AllowGroups", user, ip)
	case "root-refused":
		m.Msg = fmt.Sprintf("ROOT LOGIN REFUSED FROM %s port %d", ip, port)
	case "bad-owner":
		m.Msg = fmt.Sprintf("Authentication refused for %s: bad owner or modes for %s", user, paths[t.Choose(len(paths), "path")])
	case "nasty-ptr":
		m.Msg = fmt.Sprintf("Nasty PTR record \"%s\" is set up for %s, ignoring", dnsNames[t.Choose(len(dnsNames), "dns")], ip)
	case "reverse-mapping":
		m.Msg = fmt.Sprintf("reverse mapping checking getaddrinfo for %s [%s] failed.", dnsNames[t.Choose(len(dnsNames), "dns")], ip)
	case "not-map-back":
		m.Msg = fmt.Sprintf("Address %s maps to %s, but this does not map back to the address.", ip, dnsNames[t.Choose(len(dnsNames), "dns")])
	case "max-attempts":
		inv := ""
		if t.Choose(2, "invalid") == 1 {
			inv = "invalid user "
		}
		m.Msg = fmt.Sprintf("maximum authentication attempts exceeded for %s%s from %s port %d ssh2", inv, user, ip, port)
	case "revoked-key":
		m.Msg = fmt.Sprintf("Authentication key %s %s revoked by file %s", keyTypes[t.Choose(len(keyTypes), "kt")], fp, paths[t.Choose(len(paths), "path")])
	case "revoked-key-err":
		m.Msg = fmt.Sprintf("Error checking authentication key %s %s in revoked keys file %s", keyTypes[t.Choose(len(keyTypes), "kt")], fp, paths[t.Choose(len(paths), "path")])
	case "failed-password":
		inv := ""
		if t.Choose(2, "invalid") == 1 {
			inv = "invalid user "
		}
		m.Msg = fmt.Sprintf("Failed password for %s%s from %s port %d ssh2", inv, user, ip, port)
	}
	if target > 0 && !m.Accepted && form != "root-refused" {
		if !strings.Contains(m.Msg, stretchMark) {
			// forms without an account name: the last field (path, host name) is stretched
			m.Msg += stretchMark
			if strings.HasSuffix(m.Msg, ", ignoring"+stretchMark) || strings.HasSuffix(m.Msg, " failed."+stretchMark) || strings.HasSuffix(m.Msg, "address."+stretchMark) {
				m.Msg = strings.TrimSuffix(m.Msg, stretchMark)
				for _, d := range dnsNames {
					if i := strings.Index(m.Msg, d); i >= 0 {
						m.Msg = m.Msg[:i] + stretchMark + m.Msg[i:]
						break
					}
				}
			}
		}
		n := target - (len(m.Msg) - len(stretchMark))
		if n < 0 {
			n = 0
		}
		m.Msg = strings.Replace(m.Msg, stretchMark, strings.Repeat("k", n), 1)
		m.Msg = strings.ReplaceAll(m.Msg, stretchMark, "")
	}
	m.Msg = strings.ReplaceAll(m.Msg, stretchMark, "")
	return m
}

const stretchMark = "\x01S\x01"

// Line frames the message as rsyslog does ("%PROCID% %msg%\n", %msg% optionally with its
// leading blank).
func (m *SshdMsg) Line(pad int) string {
	sp := " "
	for i := 0; i < pad; i++ {
		sp += " "
	}
	return m.PID + sp + m.Msg + "\n"
}
