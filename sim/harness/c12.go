package verifsim

import (
	"context"
	"errors"
	"fmt"
	"syscall"
	"time"

	"github.com/metal-toolbox/audito-maldito/ingesters/namedpipe"
	"github.com/metal-toolbox/audito-maldito/internal/health"
	"github.com/metal-toolbox/audito-maldito/internal/simrt"
)

// C12: pipe framing. Real namedpipe.Ingest over SimPipe; model = split on delimiter.

func init() {
	register(&propDef{
		ID: "C12", Level: "exploration",
		Families: []family{
			{Name: "streams", Fn: scnC12("eof"), Weight: 9},
			{Name: "callback-error-at-i", Fn: scnC12("cberr"), Weight: 6, Group: 12},
			{Name: "read-error", Fn: scnC12("eio"), Weight: 3},
			{Name: "long-stream", Fn: scnC12("huge"), Weight: 1},
		},
		Rule: "byte streams of 0-40 records (record length 0..3x the internal buffer + 7, arbitrary bytes except the delimiter, optional unterminated tail) x " +
			"partition into writes (byte at a time, many records per write, everything at once, random) x pauses in fake time x short reads x buffer-size knob {16,64,4096} x delimiter {\\n, 0x1e, 0x00, 0x7f, 0x80, 0xff}; " +
			"one run in nineteen is a long stream (150-250 records of 4-10 KB, in half of them one of 64-69 KB, more than a megabyte through one Ingest call, writes up to 64 KB); every record is compared inside the callback and again, as the string that was handed over, after Ingest returned; " +
			"in a sixth of the end-of-stream runs a second writer opens the FIFO 20-420 ms after the last one closed (its record belongs to the next call); faults: end of stream, callback error at every record index i of the stream (enumerated within a group of runs), read error (EIO) at a random instant; " +
			"non-trivial = at least 2 records and (a record longer than the internal buffer or a write boundary inside a record or a fault fired); distinct = distinct (stream+partition hash, schedule hash)",
		Quick: 12000, Thorough: 400000,
	})
}

type c12Callback struct {
	got         []string
	kept        []string // the strings as handed over, looked at again only after Ingest returned
	failAt      int      // index at which the callback returns failErr (-1: never)
	failErr     error
	onFail      func() // runs inside the failing callback, before it returns its error
	calls       int
	afterReturn int // callbacks after Ingest returned
	returned    bool
}

//go:norace
func (c *c12Callback) cb(_ context.Context, line string) error {
	if c.returned {
		c.afterReturn++
	}
	i := c.calls
	c.calls++
	c.got = append(c.got, string(append([]byte(nil), line...)))
	c.kept = append(c.kept, line)
	if i == c.failAt {
		if c.onFail != nil {
			c.onFail()
		}
		return c.failErr
	}
	return nil
}

type c12Result struct {
	done bool
	err  error
}

//go:norace
func (r *c12Result) set(err error) { r.done, r.err = true, err }

var errC12Callback = errors.New("injected callback failure")

func scnC12(mode string) scenarioFn {
	return func(rc *RunCtx) {
		t := rc.Spec
		bufsz := []int{4096, 16, 64}[t.Choose(3, "bufio")]
		delim := byte('\n')
		switch t.Choose(10, "delim") {
		case 0, 5:
			delim = 0x1e
		case 6:
			delim = 0x00
		case 7:
			delim = 0x80 // any byte may be the delimiter, also one that is not ASCII
		case 8:
			delim = 0xff
		case 9:
			delim = 0x7f
		}
		nrec := t.Choose(41, "nrec")
		if mode == "cberr" && nrec == 0 {
			nrec = 1 + t.Choose(10, "nrec2")
		}
		huge := mode == "huge"
		if huge {
			// one Ingest call sees well over a megabyte: 150-250 records of 4-10 KB
			mode = "eof"
			bufsz = 4096
			nrec = 150 + t.Choose(100, "nrec.huge")
		}
		var recs [][]byte
		long := false
		var stream []byte
		for i := 0; i < nrec; i++ {
			var n int
			switch kind := t.Choose(6, "reclen.kind"); {
			case huge:
				n = 4000 + t.Choose(6000, "reclen.huge")
				if i == nrec/2 && t.Choose(2, "reclen.pipe.capacity") == 1 {
					// one record as large as a kernel pipe's capacity (and a little more)
					n = 65534 + t.Choose(5000, "reclen.pipe.capacity.by")
				}
			case kind == 0:
				n = 0
			case kind == 1:
				n = bufsz - 1 + t.Choose(3, "reclen.edge") // around the buffer boundary (incl. delimiter position)
				if len(stream) > 16000 {
					n = t.Choose(64, "reclen.cap")
				}
			case kind == 2:
				n = t.Choose(3*bufsz+8, "reclen.big")
				if bufsz == 4096 {
					n = t.Choose(2*bufsz, "reclen.big2")
					if len(stream) > 16000 {
						n = t.Choose(64, "reclen.cap")
					}
				}
			default:
				n = t.Choose(40, "reclen.small")
			}
			if n >= bufsz {
				long = true
			}
			r := make([]byte, n)
			for j := range r {
				b := byte(t.Aux(256))
				if b == delim {
					b = 'x'
				}
				r[j] = b
			}
			recs = append(recs, r)
			stream = append(stream, r...)
			stream = append(stream, delim)
		}
		var tail []byte
		if t.Choose(3, "tail") == 0 {
			tail = make([]byte, 1+t.Choose(30, "taillen"))
			for j := range tail {
				b := byte('a' + t.Aux(26))
				tail[j] = b
			}
			stream = append(stream, tail...)
		}
		// partition into writes
		var writes [][]byte
		splitInside := false
		pmode := t.Choose(4, "partition")
		// keep runs short: tiny writes only for short streams
		if pmode == 0 && len(stream) > 400 {
			pmode = 3
		}
		if pmode == 3 && len(stream) > 2500 {
			pmode = 2
		}
		if huge {
			pmode = 2
		}
		rest := stream
		for len(rest) > 0 {
			var k int
			switch pmode {
			case 0:
				k = 1
			case 1:
				k = len(rest)
			case 2:
				k = 1 + t.Choose(3*bufsz, "wsize")
				if huge {
					k = 1 + t.Choose(65536, "wsize.huge")
				}
			default:
				k = 1 + t.Choose(9, "wsize.small")
			}
			if k > len(rest) {
				k = len(rest)
			}
			writes = append(writes, rest[:k])
			rest = rest[k:]
		}
		if pmode != 1 && len(stream) > 1 {
			splitInside = true
		}
		cbk := &c12Callback{failAt: -1, failErr: errC12Callback}
		if mode == "cberr" {
			cbk.failAt = rc.Sub % nrec
			// the callback's error may be, or wrap, a context error of its own (a per-record
			// time-out): it is still the callback's error
			switch t.Choose(4, "cberr.kind") {
			case 2:
				cbk.failErr = fmt.Errorf("per-record time-out: %w", context.DeadlineExceeded)
			case 3:
				cbk.failErr = context.Canceled
			}
		}
		eioAt := -1
		if mode == "eio" && len(writes) > 0 {
			eioAt = t.Choose(len(writes)+1, "eio.at")
		}
		rc.CaseKey(hashStr(string(stream)), pmode, len(writes), bufsz, delim, cbk.failAt, eioAt, mode)
		rc.Sim.Knobs["bufio"] = bufsz
		pol := pipelinePolicy(rc)

		path := "/sim/c12-pipe"
		pipe := rc.Sim.AddPipe(path)
		ctx, cancel := context.WithCancel(context.Background())
		rc.Cleanup(cancel)
		if mode == "cberr" && t.Choose(3, "cancel.in.callback") == 2 {
			// the context is cancelled while the failing callback is still running (its own error is
			// what Ingest owes the caller, whatever happens to the pipe meanwhile)
			cbk.onFail = func() {
				cancel()
				simrt.Sleep(200*time.Millisecond, "callback.after.cancel")
			}
			rc.Sim.Count("c12.cancel_inside_failing_callback")
		}
		npi := namedpipe.NewNamedPipeIngester(nopLogger, health.NewHealth())
		res := &c12Result{}
		rc.Sim.Spawn("ingest", func() {
			err := npi.Ingest(ctx, path, delim, cbk.cb)
			cbk.returned = true
			res.set(err)
		})
		secondWriter := mode == "eof" && !huge && t.Choose(6, "second.writer") == 5
		if secondWriter {
			rc.Sim.Count("pipe.second_writer_after_eof")
		}
		writerDone := false
		rc.Sim.Spawn("world.writer", func() {
			simrt.Point("world.open")
			w := pipe.OpenWriter()
			pauses := 0
			for i, wr := range writes {
				if i == eioAt {
					pipe.InjectReadError(syscall.EIO)
				}
				simrt.Point("world.write")
				w.Write(wr)
				if pauses < 4 && rc.Sim.Tape.ChooseBiased(6, "pause") == 1 {
					pauses++
					simrt.Sleep(time.Duration(1+rc.Sim.Tape.Choose(3000, "pause.ms"))*time.Millisecond, "world.pause")
				}
			}
			if eioAt == len(writes) {
				pipe.InjectReadError(syscall.EIO)
			}
			simrt.Point("world.close")
			w.Close()
			if secondWriter {
				// the end of the stream is final for this call: a writer that shows up a moment
				// later belongs to the next one
				simrt.Sleep(time.Duration(20+rc.Sim.Tape.Choose(400, "second.writer.ms"))*time.Millisecond, "world.second-writer")
				w2 := pipe.OpenWriter()
				w2.Write(append([]byte("late-record"), delim))
				w2.Close()
			}
			writerDone = true
		})
		_ = writerDone
		// run: tasks to idleness, then advance the clock, until Ingest returned
		ok := false
		for i := 0; i < 60; i++ {
			why := rc.Sim.RunUntil(func() bool { return res.done }, 400000)
			if why == "stop" {
				ok = true
				break
			}
			if why == "budget" {
				break
			}
			time.Sleep(500 * time.Millisecond)
		}
		rc.R.NonTrivial = nrec >= 2 && (long || splitInside || mode != "eof")
		rc.R.Sample = map[string]any{"records": nrec, "stream_bytes": len(stream), "tail_bytes": len(tail), "writes": len(writes),
			"partition": []string{"byte-at-a-time", "all-at-once", "random-large", "random-small"}[pmode], "bufio": bufsz, "delim": delim,
			"mode": mode, "callback_fails_at": cbk.failAt, "eio_before_write": eioAt, "policy": pol, "callbacks": cbk.calls, "ingest_err": fmt.Sprint(res.err)}
		if !ok {
			if !res.done {
				// the stream ended (writer closed) and Ingest never returned
				rc.Fail("C12", "no-return-at-eof", "Ingest did not return after the stream ended (mode %s): %v", mode, rc.Sim.Live())
			}
			return
		}
		// oracle
		want := recs
		limit := len(want)
		if cbk.failAt >= 0 {
			limit = cbk.failAt + 1
		}
		if mode == "eio" {
			// a prefix only
			if len(cbk.got) > len(want) {
				rc.Fail("C12", "extra-callbacks", "%d callbacks for %d records", len(cbk.got), len(want))
				return
			}
			limit = len(cbk.got)
		}
		if len(cbk.got) != limit {
			class := "missing-records"
			if len(cbk.got) > limit {
				class = "extra-callbacks"
				if cbk.failAt >= 0 {
					class = "continued-after-callback-error"
				} else if len(tail) > 0 && len(cbk.got) == len(want)+1 {
					class = "tail-delivered"
				}
			}
			rc.Fail("C12", class, "callback invoked %d times, expected %d (records %d, tail %d bytes, callback error at %d, bufio %d)", len(cbk.got), limit, len(want), len(tail), cbk.failAt, bufsz)
			return
		}
		for i := 0; i < limit; i++ {
			g := cbk.got[i]
			if g != string(want[i]) && g != string(want[i])+string([]byte{delim}) {
				rc.Fail("C12", "wrong-bytes", "record %d: callback got %d bytes %q, expected the record's %d bytes %q (with or without the delimiter); bufio %d", i, len(g), truncate(g, 80), len(want[i]), truncate(string(want[i]), 80), bufsz)
				return
			}
		}
		// the record handed over is the callback's to keep: it still reads the same afterwards
		for i := 0; i < limit && i < len(cbk.kept); i++ {
			if cbk.kept[i] != cbk.got[i] {
				rc.Fail("C12", "record-changed-after-handover", "record %d read %q inside the callback and reads %q after Ingest returned (bufio %d)", i, truncate(cbk.got[i], 80), truncate(cbk.kept[i], 80), bufsz)
				return
			}
		}
		if cbk.afterReturn > 0 {
			rc.Fail("C12", "callback-after-return", "%d callbacks after Ingest returned", cbk.afterReturn)
			return
		}
		switch mode {
		case "cberr":
			if res.err != cbk.failErr {
				rc.Fail("C12", "callback-error-not-returned-unchanged", "Ingest returned %v (%T) instead of the callback's error value", res.err, res.err)
			}
		case "eof":
			if res.err == nil {
				rc.Fail("C12", "eof-ignored", "Ingest returned nil at end of stream")
			}
		case "eio":
			if res.err == nil {
				rc.Fail("C12", "read-error-ignored", "Ingest returned nil after a read error")
			}
		}
	}
}
