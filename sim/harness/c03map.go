package verifsim

import (
	"fmt"
	"sort"
	"strings"
	"time"

	"github.com/anishathalye/porcupine"

	"github.com/metal-toolbox/audito-maldito/internal/common"
	"github.com/metal-toolbox/audito-maldito/internal/simrt"
)

// C03 (anchor internal/common/genericsyncmap.go): the map both the correlator and the health
// registry are built on. Simulated tasks call its methods concurrently at lock granularity;
// the recorded history must be linearizable against a plain map (porcupine).

type smOp struct {
	Kind string // store | load | has | delete | len | iterate | withvalue
	K, V int
}

func (o smOp) String() string {
	switch o.Kind {
	case "store":
		return fmt.Sprintf("Store(%d,%d)", o.K, o.V)
	case "len", "iterate":
		return strings.Title(o.Kind) + "()"
	}
	return fmt.Sprintf("%s(%d)", strings.Title(o.Kind), o.K)
}

type smOut struct {
	V    int
	OK   bool
	N    int
	Snap string
}

func smEncode(m map[int]int) string {
	var ks []int
	for k := range m {
		ks = append(ks, k)
	}
	sort.Ints(ks)
	var b strings.Builder
	for _, k := range ks {
		fmt.Fprintf(&b, "%d=%d;", k, m[k])
	}
	return b.String()
}

func smDecode(s string) map[int]int {
	m := map[int]int{}
	for _, p := range strings.Split(s, ";") {
		if p == "" {
			continue
		}
		var k, v int
		fmt.Sscanf(p, "%d=%d", &k, &v)
		m[k] = v
	}
	return m
}

var smModel = porcupine.Model{
	Init: func() interface{} { return "" },
	Step: func(state, input, output interface{}) (bool, interface{}) {
		m := smDecode(state.(string))
		op, out := input.(smOp), output.(smOut)
		switch op.Kind {
		case "store":
			m[op.K] = op.V
			return true, smEncode(m)
		case "delete":
			delete(m, op.K)
			return true, smEncode(m)
		case "load", "withvalue":
			v, ok := m[op.K]
			return out.OK == ok && (!ok || out.V == v), state
		case "has":
			_, ok := m[op.K]
			return out.OK == ok, state
		case "len":
			return out.N == len(m), state
		default: // iterate: a consistent snapshot
			return out.Snap == state.(string), state
		}
	},
	DescribeOperation: func(input, output interface{}) string { return fmt.Sprintf("%v -> %+v", input, output) },
}

type smLog struct {
	clock int64
	recs  []porcupine.Operation
	left  int
}

//go:norace
func (l *smLog) stamp() int64 { l.clock++; return l.clock }

//go:norace
func (l *smLog) add(o porcupine.Operation) { l.recs = append(l.recs, o) }

//go:norace
func (l *smLog) finish() { l.left-- }

func scnC03SyncMap(rc *RunCtx) {
	t := rc.Spec
	nt := 2 + t.Choose(2, "ntasks")
	nkeys := 1 + t.Choose(3, "nkeys")
	var prog [][]smOp
	val := 0
	total := 0
	for ti := 0; ti < nt; ti++ {
		var ops []smOp
		for i, n := 0, 1+t.Choose(4, "nops"); i < n && total < 12; i++ {
			total++
			kind := []string{"store", "store", "load", "has", "delete", "len", "iterate", "withvalue"}[t.Choose(8, "kind")]
			val++
			ops = append(ops, smOp{Kind: kind, K: t.Choose(nkeys, "key"), V: val})
		}
		prog = append(prog, ops)
	}
	var desc []string
	for i, ops := range prog {
		desc = append(desc, fmt.Sprintf("T%d: %v", i, ops))
	}
	rc.CaseKey(strings.Join(desc, "|"))
	sched := ""
	switch {
	case rc.Sub == 0:
		rc.Sim.Policy = simrt.PolicyRunToBlock
		sched = "baseline"
	case rc.Sub <= 3*3*6:
		x := rc.Sub - 1
		k := x % 3 % nt
		rc.Sim.Policy = simrt.PolicySweep
		rc.Sim.SweepTask = fmt.Sprintf("T%d", k)
		rc.Sim.SweepBefore = (x / 3) % 3
		rc.Sim.SweepAt = x/9 + 1
		sched = fmt.Sprintf("sweep(%d first, T%d@%d)", rc.Sim.SweepBefore, k, rc.Sim.SweepAt)
	default:
		sched = pickPolicy(rc, 60)
	}
	m := common.NewGenericSyncMap[int, int]()
	lg := &smLog{left: nt}
	exec := func(client int, op smOp) {
		call := lg.stamp()
		var out smOut
		switch op.Kind {
		case "store":
			m.Store(op.K, op.V)
		case "delete":
			m.Delete(op.K)
		case "load":
			out.V, out.OK = m.Load(op.K)
		case "has":
			out.OK = m.Has(op.K)
		case "len":
			out.N = m.Len()
		case "withvalue":
			m.WithLockedValueDo(op.K, func(v int) error { out.V, out.OK = v, true; return nil })
		default:
			snap := map[int]int{}
			m.Iterate(func(k, v int) bool { snap[k] = v; return true })
			out.Snap = smEncode(snap)
		}
		lg.add(porcupine.Operation{ClientId: client, Input: op, Call: call, Output: out, Return: lg.stamp()})
	}
	for ti, ops := range prog {
		ti, ops := ti, ops
		rc.Sim.Spawn(fmt.Sprintf("T%d", ti), func() {
			for i, op := range ops {
				if i > 0 {
					simrt.Point("between-operations")
				}
				exec(ti, op)
			}
			lg.finish()
		})
	}
	why := rc.Sim.RunUntil(func() bool { return lg.left == 0 }, 20000)
	rc.R.NonTrivial = rc.Sim.Preempts > 0
	rc.R.Sample = map[string]any{"program": desc, "schedule": sched}
	if why != "stop" {
		if dl := rc.Sim.Deadlocked(); len(dl) > 0 {
			rc.Fail("C03", "deadlock", "map operations deadlocked: %v", dl)
			return
		}
		rc.Abort("tasks did not finish (%s): %v", why, rc.Sim.Live())
		return
	}
	if len(rc.Sim.Panics) > 0 {
		rc.Fail("C03", "panic", "panic in a concurrent map operation: %s", rc.Sim.Panics[0].Value)
		return
	}
	if porcupine.CheckOperationsTimeout(smModel, lg.recs, 20*time.Second) == porcupine.Illegal {
		var hs []string
		for _, r := range lg.recs {
			hs = append(hs, fmt.Sprintf("c%d [%d,%d] %v -> %+v", r.ClientId, r.Call, r.Return, r.Input, r.Output))
		}
		rc.Fail("C03", "syncmap-not-linearizable", "the history of concurrent map operations is not linearizable against a plain map:\n%s", strings.Join(hs, "\n"))
	}
}
