package verifsim

import (
	"context"
	"errors"
	"fmt"
	"io"
	"strconv"
	"strings"
	"time"

	"github.com/metal-toolbox/audito-maldito/ingesters/namedpipe"
	"github.com/metal-toolbox/audito-maldito/ingesters/syslog"
	"github.com/metal-toolbox/audito-maldito/internal/common"
	"github.com/metal-toolbox/audito-maldito/internal/health"
	"github.com/metal-toolbox/audito-maldito/internal/simrt"
	"github.com/metal-toolbox/audito-maldito/processors/sshd"
)

// C05: accepted logins reach the correlator exactly once, matching the written event.

var c05Faults = []string{"none", "consumer-delayed", "write-error", "cancel-while-blocked", "cancel-before-call", "consumer-delayed-seconds-via-ingester", "none-via-pipe"}

func init() {
	register(&propDef{
		ID: "C05", Level: "fault_enumeration",
		Families: []family{
			{Name: "accepted-x-fault", Fn: scnC05, Weight: 4, Group: 4 * len(c05Faults)},
			{Name: "negatives", Fn: scnC05Neg, Weight: 1},
			{Name: "logins-in-sequence", Fn: scnC05Seq, Weight: 1},
			{Name: "cancel-with-lines-consumed", Fn: scnC05Consumed, Weight: 1},
		},
		Rule: "accepted public-key (exact / trailing text / certificate id) and password lines with generated fields x fault {none, consumer delayed by k steps, write error at the event write, " +
			"cancellation while the hand-off is blocked on an unready correlator, cancellation before the call, correlator busy for 0.3-9 simulated seconds with the line going through the real syslog ingester callback, no fault with the framed line written in taped chunks to a simulated FIFO read by the real syslog ingester} enumerated within each group of runs; the sshd processor runs as a simulated task, the correlator side of the " +
			"unbuffered logins channel is a second task under scheduler control; negatives: failure forms, unrecognised lines and failure lines whose client-chosen user name embeds a complete accepted-login message must forward nothing and write no succeeded event; " +
			"logins-in-sequence: two to four accepted lines handled by one processor (re-issued certificates: same key and CA fingerprints, other key id), each judged like a single one; " +
			"cancel-with-lines-consumed: several accepted lines arrive in one write, the hand-off of the first blocks, the context is cancelled: every line that had been consumed from the pipe completely by then still gets its UserLogin event, none is forwarded; " +
			"non-trivial = the intended fault fired (or, for none/delayed, exactly one hand-off was observed); distinct = distinct (message, fault, delay, schedule hash)",
		Quick: 8000, Thorough: 300000,
	})
}

type c05Consumer struct {
	got    []common.RemoteUserLogin
	idents []string
	atEnc  []int // number of encoder calls seen when the login was received
}

//go:norace
func (c *c05Consumer) take(l common.RemoteUserLogin, encCalls int) {
	c.got = append(c.got, l)
	id := "<nil source>"
	if l.Source != nil {
		id = identityOfEvent(l.Source)
	}
	c.idents = append(c.idents, id)
	c.atEnc = append(c.atEnc, encCalls)
}

func scnC05(rc *RunCtx) {
	t := rc.Spec
	form := []string{"accepted-key", "accepted-keypad", "accepted-cert", "accepted-password"}[rc.Sub%4]
	fault := c05Faults[(rc.Sub/4)%len(c05Faults)]
	m := GenSshdMsg(t, form, 1+t.Choose(9, "uniq"))
	if t.Choose(8, "pid.zero.padded") == 7 {
		// still a positive decimal number
		m.PID = []string{"0", "00", "000"}[t.Choose(3, "pid.zeros")] + m.PID
		rc.Sim.Count("c05.zero_padded_pid")
	}
	ctx, cancel := context.WithCancel(context.Background())
	rc.Cleanup(cancel)
	rec := &Recorder{Sim: rc.Sim}
	if fault == "write-error" {
		rec.FailAt = 1
	}
	logins := make(chan common.RemoteUserLogin)
	proc := newSshdProc(ctx, rec, logins)
	res := &doneFlag{}
	if fault == "cancel-before-call" {
		cancel()
		rc.Sim.Count("ctx.cancel")
	}
	delayMs := 0
	if fault == "consumer-delayed-seconds-via-ingester" {
		// the line goes through the real syslog ingester's callback and the correlator is busy
		// for a taped number of simulated milliseconds (flushing, cleanup, start-up)
		delayMs = []int{300, 900, 1500, 2500, 4000, 9000}[t.Choose(6, "delay.ms")]
		sli := syslog.NewSyslogIngester("/unused", proc, namedpipe.NewNamedPipeIngester(nopLogger, health.NewHealth()))
		rc.Sim.Spawn("sshd-proc", func() { res.set(sli.Process(ctx, m.Line(t.Choose(3, "pad")))) })
	} else if fault == "none-via-pipe" {
		// the framed line is written in taped chunks to a simulated FIFO read by the real syslog
		// ingester with its own read buffer; the end of the stream is the ingester's normal end
		path := "/sim/c05-sshd-pipe"
		pipe := rc.Sim.AddPipe(path)
		sli := syslog.NewSyslogIngester(path, proc, namedpipe.NewNamedPipeIngester(nopLogger, health.NewHealth()))
		rc.Sim.Spawn("sshd-proc", func() {
			err := sli.Ingest(ctx)
			if errors.Is(err, io.EOF) {
				err = nil
			}
			res.set(err)
		})
		line := []byte(m.Line(t.Choose(3, "pad")))
		pp := &Pipeline{rc: rc}
		rc.Sim.Spawn("world.sshd", func() {
			w := pipe.OpenWriter()
			pauses := 0
			for i, c := range pp.chunks(line) {
				simrt.Point("world.chunk")
				if i > 0 && pauses < 3 && rc.Sim.Tape.ChooseBiased(4, "chunk.pause") == 1 {
					// the rest of the record arrives up to 2.5 simulated seconds later
					pauses++
					simrt.Sleep(time.Duration(100+rc.Sim.Tape.Choose(2400, "chunk.pause.ms"))*time.Millisecond, "world.chunk.pause")
				}
				w.Write(c)
			}
			w.Close()
		})
	} else {
		rc.Sim.Spawn("sshd-proc", func() {
			res.set(proc.ProcessSshdLogEntry(ctx, sshd.SshdLogEntry{PID: m.PID, Message: m.Msg}))
		})
	}
	cons := &c05Consumer{}
	delay := 0
	consumerOn := fault == "none" || fault == "none-via-pipe" || fault == "consumer-delayed" || fault == "write-error" || fault == "consumer-delayed-seconds-via-ingester"
	if fault == "consumer-delayed" {
		delay = 1 + t.Choose(30, "delay")
	}
	stopCons := make(chan struct{})
	rc.Cleanup(func() { close(stopCons) })
	startConsumer := func(name string) {
		rc.Sim.Spawn(name, func() {
			for i := 0; i < delay; i++ {
				simrt.Point("world.consumer.delay")
			}
			if delayMs > 0 {
				simrt.Sleep(time.Duration(delayMs)*time.Millisecond, "world.consumer.busy")
			}
			for {
				simrt.Point("world.consumer")
				c0, c1 := simrt.Recv(logins), simrt.Recv(stopCons)
				if simrt.Select("world.consumer.select", false, c0, c1) != 0 {
					return
				}
				cons.take(c0.Val, rec.Calls)
			}
		})
	}
	if consumerOn {
		startConsumer("world.correlator")
	}
	pipelinePolicy(rc)
	blocked := func() bool {
		for _, x := range rc.Sim.Live() {
			if strings.HasPrefix(x, "sshd-proc ") && strings.Contains(x, "blocked-after@") && strings.Contains(x, "sshdprocessor.go") {
				return true
			}
		}
		return false
	}
	runFor := func(stop func() bool) {
		extra := 0
		if fault == "none-via-pipe" {
			extra = 90 // the writer may pause up to three times 2.5 simulated seconds
		}
		for i := 0; i < 10+delayMs/100+extra; i++ {
			if why := rc.Sim.RunUntil(stop, 50000); why != "idle" {
				return
			}
			if stop() {
				return
			}
			time.Sleep(100 * time.Millisecond)
		}
	}
	switch fault {
	case "cancel-while-blocked":
		runFor(func() bool { return res.v || blocked() })
		inState := blocked()
		if inState {
			rc.Sim.Count("cancel_in_state_handoff")
		}
		rc.R.NonTrivial = inState
		cancel()
		rc.Sim.Count("ctx.cancel")
		runFor(func() bool { return res.v })
		// a correlator that becomes ready afterwards must not receive anything
		startConsumer("world.late-correlator")
		runFor(func() bool { return false })
	default:
		runFor(func() bool { return res.v })
		runFor(func() bool { return false })
	}
	rc.CaseKey(form, fault, delay, m.Msg)
	rc.R.Sample = map[string]any{"form": form, "fault": fault, "delay_steps": delay, "pid": m.PID, "message": m.Msg, "events_written": len(rec.Events),
		"logins_forwarded": len(cons.got), "returned": res.v, "error": fmt.Sprint(res.err)}
	if !res.v {
		rc.Fail("C05", "no-return", "ProcessSshdLogEntry did not return (fault %s): %v", fault, rc.Sim.Live())
		return
	}
	wantPID, _ := strconv.Atoi(m.PID)
	switch fault {
	case "write-error":
		rc.R.NonTrivial = rec.Calls >= 1
		if res.err == nil {
			rc.Fail("C05", "write-error-swallowed", "the event could not be written but ProcessSshdLogEntry returned nil")
		} else if len(cons.got) > 0 {
			rc.Fail("C05", "forward-after-write-error", "the event could not be written but a login was forwarded")
		}
		return
	case "cancel-while-blocked", "cancel-before-call":
		if fault == "cancel-before-call" {
			rc.R.NonTrivial = true
		}
		if res.err != nil {
			rc.Fail("C05", "error-on-cancel", "cancelled hand-off returned %v, expected nil", res.err)
			return
		}
		// with the context cancelled before the call the select may legitimately take either
		// ready arm only if a receiver is ready; there is none
		if len(cons.got) > 0 && fault == "cancel-while-blocked" {
			rc.Fail("C05", "forward-after-cancel", "%d login(s) forwarded after the hand-off was cancelled", len(cons.got))
			return
		}
	}
	// the UserLogin event: written first, whatever becomes of the hand-off
	{
		if len(rec.Events) != 1 {
			rc.Fail("C05", "event-count", "accepted %s line wrote %d events, expected exactly one succeeded UserLogin", form, len(rec.Events))
			return
		}
		e := rec.Events[0]
		if e.Type != "UserLogin" || e.Outcome != "succeeded" {
			rc.Fail("C05", "event-kind", "accepted %s line wrote a %s/%s event", form, e.Type, e.Outcome)
			return
		}
	}
	if fault == "none" || fault == "none-via-pipe" || fault == "consumer-delayed" || fault == "consumer-delayed-seconds-via-ingester" {
		rc.R.NonTrivial = len(cons.got) == 1
		if res.err != nil {
			rc.Fail("C05", "unexpected-error", "ProcessSshdLogEntry returned %v", res.err)
			return
		}
		if len(cons.got) != 1 {
			rc.Fail("C05", "forward-count", "accepted %s line forwarded %d logins, expected exactly one", form, len(cons.got))
			return
		}
		l := cons.got[0]
		if l.PID != wantPID {
			rc.Fail("C05", "forward-pid", "forwarded login has PID %d, the line's PID is %s", l.PID, m.PID)
			return
		}
		if l.CredUserID != m.Login.ExpCredUserID() {
			rc.Fail("C05", "forward-cred", "forwarded login has credential user id %q, expected %q", l.CredUserID, m.Login.ExpCredUserID())
			return
		}
		if cons.atEnc[0] < 1 {
			rc.Fail("C05", "forward-before-write", "the login was forwarded before the UserLogin event was written")
			return
		}
		if cons.idents[0] != rec.Events[0].Identity() || l.Source == nil {
			rc.Fail("C05", "forward-identity", "the forwarded login's identity differs from the written event: forwarded %s, written %s", cons.idents[0], rec.Events[0].Identity())
			return
		}
		fw, _ := snapshotEvent(l.Source)
		if fw.AuditID != rec.Events[0].AuditID || !fw.LoggedAt.Equal(rec.Events[0].LoggedAt) || fw.Outcome != rec.Events[0].Outcome {
			rc.Fail("C05", "forward-identity", "the forwarded login's event is not the event that was written (id %s/%s, at %v/%v)", fw.AuditID, rec.Events[0].AuditID, fw.LoggedAt, rec.Events[0].LoggedAt)
		}
	}
}

// scnC05Neg: failure forms and unrecognised lines never forward a login.
func scnC05Neg(rc *RunCtx) {
	t := rc.Spec
	// failure forms only (total also under a zeroed replay tape)
	var failureForms []string
	for _, f := range sshdForms {
		if !strings.HasPrefix(f, "accepted-") {
			failureForms = append(failureForms, f)
		}
	}
	m := GenSshdMsg(t, failureForms[t.Choose(len(failureForms), "form")], 1+t.Choose(9, "uniq"))
	if t.Choose(3, "adversarial") == 0 {
		// a client-chosen user name that embeds a complete accepted-login message (sshd echoes
		// the name verbatim in its failure messages)
		inner := GenSshdMsg(t, []string{"accepted-password", "accepted-key", "accepted-cert"}[t.Choose(3, "inner")], 7).Msg
		m.Msg = []string{
			"Invalid user " + inner + " from 203.0.113.9 port 40022",
			"Failed password for invalid user " + inner + " from 203.0.113.9 port 40022 ssh2",
			"User " + inner + " from 203.0.113.9 not allowed because not listed in AllowUsers",
			"maximum authentication attempts exceeded for invalid user " + inner + " from 203.0.113.9 port 40022 ssh2",
			"debug1: " + inner,
		}[t.Choose(5, "outer")]
		m.Form = "failure-line-embedding-accepted-text"
	} else if t.Choose(4, "unrecognised") == 0 {
		m.Msg = []string{"Connection closed by 10.0.0.1 port 22", "Disconnected from user x", "Accepted keyboard-interactive/pam for bob from 1.2.3.4 port 5 ssh2", "pam_unix(sshd:session): session opened"}[t.Choose(4, "which")]
		m.Form = "unrecognised"
	}
	ctx, cancel := context.WithCancel(context.Background())
	rc.Cleanup(cancel)
	rec := &Recorder{Sim: rc.Sim}
	logins := make(chan common.RemoteUserLogin, 4)
	res := &doneFlag{}
	proc := newSshdProc(ctx, rec, logins)
	rc.Sim.Spawn("sshd-proc", func() {
		res.set(proc.ProcessSshdLogEntry(ctx, sshd.SshdLogEntry{PID: m.PID, Message: m.Msg}))
	})
	pipelinePolicy(rc)
	rc.Sim.RunUntil(func() bool { return res.v }, 50000)
	got := drainLogins(logins)
	rc.CaseKey(m.Form, m.Msg)
	rc.R.NonTrivial = true
	rc.R.Sample = map[string]any{"form": m.Form, "message": m.Msg, "events_written": len(rec.Events), "logins_forwarded": len(got)}
	if !res.v {
		rc.Fail("C05", "no-return", "ProcessSshdLogEntry did not return for a %s line", m.Form)
		return
	}
	if len(got) > 0 {
		rc.Fail("C05", "forward-on-failure-line", "a %s line (%q) forwarded %d login(s)", m.Form, m.Msg, len(got))
		return
	}
	for _, e := range rec.Events {
		if e.Outcome == "succeeded" {
			rc.Fail("C05", "succeeded-event-on-failure-line", "a %s line (%q) wrote a succeeded UserLogin event", m.Form, m.Msg)
			return
		}
	}
}

// scnC05Seq: one processor handles several accepted logins one after the other (as the daemon's
// does for its whole life); later certificate logins may be re-issued certificates for the key
// of an earlier one (same key and CA fingerprints, different key id and serial).
func scnC05Seq(rc *RunCtx) {
	t := rc.Spec
	ctx, cancel := context.WithCancel(context.Background())
	rc.Cleanup(cancel)
	rec := &Recorder{Sim: rc.Sim, NoPoint: true}
	logins := make(chan common.RemoteUserLogin, 8)
	sli := syslog.NewSyslogIngester("/unused", newSshdProc(ctx, rec, logins), namedpipe.NewNamedPipeIngester(nopLogger, health.NewHealth()))
	n := 2 + t.Choose(3, "n")
	var msgs []*SshdMsg
	var certs []*LoginSpec
	for i := 0; i < n; i++ {
		form := []string{"accepted-cert", "accepted-key", "accepted-cert", "accepted-password", "accepted-keypad", "accepted-cert"}[t.Choose(6, "form")]
		m := GenSshdMsg(t, form, i+1)
		if m.Login.Form == "cert" {
			if len(certs) > 0 && t.Choose(2, "reissued") == 1 {
				o := certs[t.Choose(len(certs), "reissued.of")]
				m.Login.Alg, m.Login.FP, m.Login.CAFP = o.Alg, o.FP, o.CAFP
				m.Msg = m.Login.Message()
				rc.Sim.Count("c05.reissued_certificate")
			}
			certs = append(certs, m.Login)
		}
		msgs = append(msgs, m)
	}
	var hs []string
	for i, m := range msgs {
		hs = append(hs, m.Msg)
		ev0 := len(rec.Events)
		if err := sli.Process(ctx, m.Line(t.Choose(3, "pad"))); err != nil {
			rc.Fail("C05", "unexpected-error", "login %d of %d (%s): the processor returned %v", i+1, n, m.Form, err)
			break
		}
		got := drainLogins(logins)
		if len(rec.Events)-ev0 != 1 || rec.Events[ev0].Type != "UserLogin" || rec.Events[ev0].Outcome != "succeeded" {
			rc.Fail("C05", "event-count", "login %d of %d (%s): %d events written, expected exactly one succeeded UserLogin", i+1, n, m.Form, len(rec.Events)-ev0)
			break
		}
		if len(got) != 1 {
			rc.Fail("C05", "forward-count", "login %d of %d (%s): %d logins forwarded, expected exactly one", i+1, n, m.Form, len(got))
			break
		}
		wantPID, _ := strconv.Atoi(m.PID)
		if got[0].PID != wantPID {
			rc.Fail("C05", "forward-pid", "login %d of %d: forwarded PID %d, the line's PID is %s", i+1, n, got[0].PID, m.PID)
			break
		}
		if got[0].CredUserID != m.Login.ExpCredUserID() {
			rc.Fail("C05", "forward-cred", "login %d of %d (%s, after %d earlier logins on the same processor): forwarded credential user id %q, the line's is %q", i+1, n, m.Form, i, got[0].CredUserID, m.Login.ExpCredUserID())
			break
		}
		if got[0].Source == nil || identityOfEvent(got[0].Source) != rec.Events[ev0].Identity() {
			rc.Fail("C05", "forward-identity", "login %d of %d: the forwarded login's identity differs from the written event", i+1, n)
			break
		}
	}
	rc.CaseKey(hashStr(hs...))
	rc.R.NonTrivial = len(certs) >= 1
	rc.R.Sample = map[string]any{"messages": hs, "events_written": len(rec.Events)}
}

// scnC05Consumed: lines that the daemon has taken out of the pipe are not lost when its context
// is cancelled: each still gets its UserLogin event (only the hand-off is skipped).
func scnC05Consumed(rc *RunCtx) {
	t := rc.Spec
	ctx, cancel := context.WithCancel(context.Background())
	rc.Cleanup(cancel)
	rec := &Recorder{Sim: rc.Sim}
	logins := make(chan common.RemoteUserLogin) // nobody receives: the first hand-off blocks
	path := "/sim/c05-consumed-pipe"
	pipe := rc.Sim.AddPipe(path)
	sli := syslog.NewSyslogIngester(path, newSshdProc(ctx, rec, logins), namedpipe.NewNamedPipeIngester(nopLogger, health.NewHealth()))
	res := &doneFlag{}
	rc.Sim.Spawn("sshd-proc", func() { res.set(sli.Ingest(ctx)) })
	n := 2 + t.Choose(4, "n")
	var all []byte
	var ends []int
	var msgs []*SshdMsg
	for i := 0; i < n; i++ {
		m := GenSshdMsg(t, []string{"accepted-key", "accepted-password", "accepted-cert", "accepted-keypad"}[t.Choose(4, "form")], i+1)
		// keep the burst well inside one read buffer
		if len(m.Msg) > 600 {
			m = GenSshdMsg(simrt.NewReplayTape(1, nil), "accepted-password", i+1)
		}
		msgs = append(msgs, m)
		all = append(all, m.Line(0)...)
		ends = append(ends, len(all))
	}
	w := pipe.OpenWriter()
	rc.Cleanup(func() { w.Close() })
	rc.Sim.Spawn("world.sshd", func() { w.Write(all) })
	pipelinePolicy(rc)
	blocked := func() bool {
		for _, x := range rc.Sim.Live() {
			if strings.HasPrefix(x, "sshd-proc ") && strings.Contains(x, "blocked-after@") && strings.Contains(x, "sshdprocessor.go") {
				return true
			}
		}
		return false
	}
	for i := 0; i < 20 && !blocked() && !res.v; i++ {
		rc.Sim.RunUntil(func() bool { return res.v || blocked() }, 50000)
		if !blocked() {
			time.Sleep(100 * time.Millisecond)
		}
	}
	inState := blocked()
	consumed := pipe.BytesRead
	cancel()
	rc.Sim.Count("ctx.cancel")
	for i := 0; i < 20 && !res.v; i++ {
		rc.Sim.RunUntil(func() bool { return res.v }, 50000)
		if !res.v {
			time.Sleep(100 * time.Millisecond)
		}
	}
	rc.Sim.RunUntil(nil, 50000)
	want := 0
	for _, e := range ends {
		if e <= consumed {
			want++
		}
	}
	rc.CaseKey(hashStr(string(all)), consumed)
	rc.R.NonTrivial = inState && want >= 2
	rc.R.Sample = map[string]any{"lines": n, "bytes": len(all), "consumed_at_cancel": consumed, "lines_consumed_completely": want, "events_written": len(rec.Events), "returned": res.v, "error": fmt.Sprint(res.err)}
	if !inState {
		return
	}
	if !res.v {
		rc.Fail("C05", "no-return", "the sshd ingester did not return after cancellation with its hand-off blocked: %v", rc.Sim.Live())
		return
	}
	if len(drainLogins0(logins)) > 0 {
		rc.Fail("C05", "forward-after-cancel", "a login was forwarded although nobody received and the context was cancelled")
		return
	}
	if len(rec.Events) < want {
		rc.Fail("C05", "consumed-line-lost", "%d accepted lines had been consumed from the pipe completely (%d of %d bytes) when the context was cancelled, but only %d UserLogin events were written: the others are gone from the pipe and from the record", want, consumed, len(all), len(rec.Events))
		return
	}
	for i := 0; i < len(rec.Events) && i < len(msgs); i++ {
		if rec.Events[i].Subjects["pid"] != msgs[i].PID || rec.Events[i].Outcome != "succeeded" {
			rc.Fail("C05", "event-kind", "event %d is %s/%s for pid %s, expected the succeeded UserLogin of pid %s", i, rec.Events[i].Type, rec.Events[i].Outcome, rec.Events[i].Subjects["pid"], msgs[i].PID)
			return
		}
	}
}

func drainLogins0(ch chan common.RemoteUserLogin) []common.RemoteUserLogin {
	select {
	case l := <-ch:
		return []common.RemoteUserLogin{l}
	default:
		return nil
	}
}
