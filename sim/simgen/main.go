// simgen rewrites the synchronisation operations of metal-toolbox/audito-maldito (current
// working tree) into calls of internal/simrt and emits a Go build overlay. Nothing under
// /repo is modified.
//
// Pass 1 (typed, text edits on the original source): locks, channel operations outside
// select, close, go statements, errgroup, map/chan range, I/O seams, knobs.
// Pass 2 (syntactic, on pass-1 output): select statements.
package main

import (
	"bytes"
	"encoding/json"
	"flag"
	"fmt"
	"go/ast"
	"go/format"
	"go/parser"
	"go/token"
	"go/types"
	"os"
	"path/filepath"
	"sort"
	"strings"

	"golang.org/x/tools/go/packages"
)

const modPath = "github.com/metal-toolbox/audito-maldito"
const simrtImport = modPath + "/internal/simrt"

type edit struct {
	start, end int // byte offsets; start==end: insertion
	text       string
	prio       int // >0: closing text, <0: opening text (insertions)
	seq        int
}

type fileRewriter struct {
	fset     *token.FileSet
	file     *ast.File
	src      []byte
	tf       *token.File
	info     *types.Info
	pkgPath  string
	rel      string // file path relative to repo
	edits    []edit
	counts   map[string]int
	siteN    int
	skipComm map[ast.Node]bool
}

func (r *fileRewriter) off(p token.Pos) int { return r.tf.Offset(p) }

func (r *fileRewriter) site(p token.Pos, kind string) string {
	pos := r.fset.Position(p)
	return fmt.Sprintf("%s:%d:%s", r.rel, pos.Line, kind)
}

func (r *fileRewriter) ins(p token.Pos, text string, prio int) {
	o := r.off(p)
	r.edits = append(r.edits, edit{start: o, end: o, text: text, prio: prio})
}

func (r *fileRewriter) repl(from, to token.Pos, text string) {
	r.edits = append(r.edits, edit{start: r.off(from), end: r.off(to), text: text})
}

func (r *fileRewriter) text(n ast.Node) string {
	return string(r.src[r.off(n.Pos()):r.off(n.End())])
}

func q(s string) string { return fmt.Sprintf("%q", s) }

func isPkgFunc(info *types.Info, e ast.Expr, pkg, name string) bool {
	sel, ok := e.(*ast.SelectorExpr)
	if !ok {
		return false
	}
	obj := info.Uses[sel.Sel]
	if obj == nil || obj.Pkg() == nil {
		return false
	}
	return obj.Pkg().Path() == pkg && obj.Name() == name
}

// methodOf reports the receiver's named type "pkg.Type" of the method selected by sel.
func methodOf(info *types.Info, sel *ast.SelectorExpr) (string, string) {
	s := info.Selections[sel]
	if s == nil || s.Kind() != types.MethodVal {
		return "", ""
	}
	f, ok := s.Obj().(*types.Func)
	if !ok {
		return "", ""
	}
	sig := f.Type().(*types.Signature)
	if sig.Recv() == nil {
		return "", ""
	}
	rt := sig.Recv().Type()
	if p, ok := rt.(*types.Pointer); ok {
		rt = p.Elem()
	}
	n, ok := rt.(*types.Named)
	if !ok || n.Obj().Pkg() == nil {
		return "", ""
	}
	return n.Obj().Pkg().Path() + "." + n.Obj().Name(), f.Name()
}

func pureExpr(e ast.Expr) bool {
	switch x := e.(type) {
	case *ast.Ident:
		return true
	case *ast.SelectorExpr:
		return pureExpr(x.X)
	case *ast.StarExpr:
		return pureExpr(x.X)
	case *ast.ParenExpr:
		return pureExpr(x.X)
	}
	return false
}

func (r *fileRewriter) markSelectComms() {
	r.skipComm = map[ast.Node]bool{}
	ast.Inspect(r.file, func(n ast.Node) bool {
		cc, ok := n.(*ast.CommClause)
		if !ok || cc.Comm == nil {
			return true
		}
		switch c := cc.Comm.(type) {
		case *ast.SendStmt:
			r.skipComm[c] = true
		case *ast.ExprStmt:
			r.skipComm[c.X] = true
		case *ast.AssignStmt:
			if len(c.Rhs) == 1 {
				r.skipComm[c.Rhs[0]] = true
			}
		}
		return true
	})
}

func (r *fileRewriter) pass1(cfg pkgConfig) {
	r.markSelectComms()
	recv2 := map[ast.Node]bool{}
	labeled := map[ast.Node]bool{}
	ast.Inspect(r.file, func(n ast.Node) bool {
		switch x := n.(type) {
		case *ast.LabeledStmt:
			labeled[x.Stmt] = true
		case *ast.AssignStmt:
			if len(x.Lhs) == 2 && len(x.Rhs) == 1 {
				if u, ok := x.Rhs[0].(*ast.UnaryExpr); ok && u.Op == token.ARROW {
					recv2[u] = true
				}
			}
		case *ast.ValueSpec:
			if len(x.Names) == 2 && len(x.Values) == 1 {
				if u, ok := x.Values[0].(*ast.UnaryExpr); ok && u.Op == token.ARROW {
					recv2[u] = true
				}
			}
		}
		return true
	})

	ast.Inspect(r.file, func(n ast.Node) bool {
		switch x := n.(type) {
		case *ast.UnaryExpr:
			if x.Op == token.ARROW && !r.skipComm[x] {
				fn := "simrt.ChanRecv("
				if recv2[x] {
					fn = "simrt.ChanRecv2("
				}
				r.repl(x.OpPos, x.OpPos+2, fn)
				r.ins(x.X.End(), ", "+q(r.site(x.Pos(), "recv"))+")", 10)
				r.counts["R4.recv"]++
			}
		case *ast.SendStmt:
			if !r.skipComm[x] {
				r.ins(x.Chan.Pos(), "simrt.ChanSender(", -10)
				r.repl(x.Arrow, x.Arrow+2, ", "+q(r.site(x.Pos(), "send"))+").Send(")
				r.ins(x.Value.End(), ")", 10)
				r.counts["R4.send"]++
			}
		case *ast.ExprStmt:
			// wg.Wait() blocks until other goroutines are done: scheduling point after it
			if c, ok := x.X.(*ast.CallExpr); ok {
				if sel, ok := c.Fun.(*ast.SelectorExpr); ok {
					if typ, name := methodOf(r.info, sel); typ == "sync.WaitGroup" && name == "Wait" {
						r.ins(c.End(), "; simrt.Point("+q(r.site(c.Pos(), "wg.Wait"))+")", 10)
						r.counts["R4.wgwait"]++
					}
				}
			}
		case *ast.GoStmt:
			r.rewriteGo(x)
		case *ast.RangeStmt:
			r.rewriteRange(x, labeled[x])
		case *ast.CallExpr:
			r.rewriteCall(x, cfg)
		case *ast.AssignStmt:
			if cfg.knobs && len(x.Lhs) == 1 && len(x.Rhs) == 1 {
				if id, ok := x.Lhs[0].(*ast.Ident); ok && id.Name == "auditLogChanBufSize" {
					if lit, ok := x.Rhs[0].(*ast.BasicLit); ok && lit.Kind == token.INT {
						r.repl(lit.Pos(), lit.End(), fmt.Sprintf("simrt.KnobInt(%q, %s)", id.Name, lit.Value))
						r.counts["R6.knob"]++
					}
				}
			}
		case *ast.SelectorExpr:
			// *os.File type in the pipe ingester
			if cfg.pipeIO {
				if obj, ok := r.info.Uses[x.Sel].(*types.TypeName); ok && obj.Pkg() != nil &&
					obj.Pkg().Path() == "os" && obj.Name() == "File" {
					if id, ok := x.X.(*ast.Ident); ok {
						r.repl(id.Pos(), id.End(), "simrt")
						r.counts["R3.osFile"]++
					}
				}
			}
		}
		return true
	})
}

func (r *fileRewriter) rewriteGo(g *ast.GoStmt) {
	call := g.Call
	site := q(r.site(g.Pos(), "go"))
	if fl, ok := call.Fun.(*ast.FuncLit); ok && len(call.Args) == 0 {
		// go func(){...}()  ->  simrt.Go(site, func(){...})
		r.repl(g.Go, fl.Pos(), "simrt.Go("+site+", ")
		r.repl(call.Lparen, call.Rparen+1, ")")
		r.counts["R5.go"]++
		return
	}
	// go f(a, b) -> simrt.GoN(site, f, a, b) when f has no results and is not variadic
	tv := r.info.Types[call.Fun]
	if sig, ok := tv.Type.(*types.Signature); ok && sig.Results().Len() == 0 && !sig.Variadic() &&
		len(call.Args) >= 1 && len(call.Args) <= 4 && sig.Params().Len() == len(call.Args) && !call.Ellipsis.IsValid() {
		r.repl(g.Go, call.Fun.Pos(), fmt.Sprintf("simrt.Go%d(%s, ", len(call.Args), site))
		r.repl(call.Lparen, call.Lparen+1, ", ")
		r.counts["R5.go"]++
		return
	}
	if sig, ok := tv.Type.(*types.Signature); ok && sig.Params().Len() == 0 && len(call.Args) == 0 && sig.Results().Len() == 0 {
		r.repl(g.Go, call.Fun.Pos(), "simrt.Go("+site+", ")
		r.repl(call.Lparen, call.Rparen+1, ")")
		r.counts["R5.go"]++
		return
	}
	// fallback: closure form (arguments evaluated in the child)
	r.repl(g.Go, call.Pos(), "simrt.Go("+site+", func() { ")
	r.ins(call.End(), " })", 20)
	r.counts["R5.go_closure"]++
}

func (r *fileRewriter) rewriteRange(x *ast.RangeStmt, isLabeled bool) {
	tv, ok := r.info.Types[x.X]
	if !ok {
		return
	}
	under := tv.Type.Underlying()
	keyName := func(e ast.Expr) string {
		if e == nil {
			return "_"
		}
		if id, ok := e.(*ast.Ident); ok {
			return id.Name
		}
		return ""
	}
	switch under.(type) {
	case *types.Map:
		k, v := keyName(x.Key), keyName(x.Value)
		if x.Tok == token.ASSIGN || k == "" || v == "" {
			r.counts["R2.map_unrewritten"]++
			return
		}
		id := r.siteN
		r.siteN++
		m := r.text(x.X)
		var hdr string
		if pureExpr(x.X) {
			kk := k
			if kk == "_" {
				kk = fmt.Sprintf("_simk%d", id)
			}
			if x.Key == nil && x.Value == nil {
				hdr = fmt.Sprintf("for range simrt.Keys(%s) {", m)
			} else if v == "_" {
				hdr = fmt.Sprintf("for _, %s := range simrt.Keys(%s) {", kk, m)
			} else {
				hdr = fmt.Sprintf("for _, %s := range simrt.Keys(%s) { %s, _simok%d := (%s)[%s]; if !_simok%d { continue };", kk, m, v, id, m, kk, id)
			}
		} else {
			p := fmt.Sprintf("_simkv%d", id)
			switch {
			case k == "_" && v == "_":
				hdr = fmt.Sprintf("for range simrt.Pairs(%s) {", m)
			case v == "_":
				hdr = fmt.Sprintf("for _, %s := range simrt.Pairs(%s) { %s := %s.K;", p, m, k, p)
			case k == "_":
				hdr = fmt.Sprintf("for _, %s := range simrt.Pairs(%s) { %s := %s.V;", p, m, v, p)
			default:
				hdr = fmt.Sprintf("for _, %s := range simrt.Pairs(%s) { %s, %s := %s.K, %s.V;", p, m, k, v, p, p)
			}
		}
		r.repl(x.For, x.Body.Lbrace+1, hdr)
		r.counts["R2.maprange"]++
	case *types.Chan:
		if x.Tok == token.ASSIGN {
			r.counts["R4.chanrange_unrewritten"]++
			return
		}
		id := r.siteN
		r.siteN++
		k := keyName(x.Key)
		if k == "" {
			r.counts["R4.chanrange_unrewritten"]++
			return
		}
		site := q(r.site(x.Pos(), "rangechan"))
		hdr := fmt.Sprintf("for { %s, _simok%d := simrt.ChanRecv2(%s, %s); if !_simok%d { break };", k, id, r.text(x.X), site, id)
		r.repl(x.For, x.Body.Lbrace+1, hdr)
		r.counts["R4.chanrange"]++
	}
}

func (r *fileRewriter) rewriteCall(c *ast.CallExpr, cfg pkgConfig) {
	// close(ch)
	if id, ok := c.Fun.(*ast.Ident); ok && id.Name == "close" && len(c.Args) == 1 {
		if _, isBuiltin := r.info.Uses[id].(*types.Builtin); isBuiltin {
			r.repl(id.Pos(), id.End(), "simrt.ChanClose")
			r.ins(c.Rparen, ", "+q(r.site(c.Pos(), "close")), 10)
			r.counts["R4.close"]++
		}
		return
	}
	sel, ok := c.Fun.(*ast.SelectorExpr)
	if !ok {
		return
	}
	// package-level functions
	if isPkgFunc(r.info, c.Fun, "time", "Sleep") && len(c.Args) == 1 {
		r.repl(sel.Pos(), sel.End(), "simrt.Sleep")
		r.ins(c.Rparen, ", "+q(r.site(c.Pos(), "sleep")), 10)
		r.counts["R4.sleep"]++
		return
	}
	if cfg.pipeIO && (isPkgFunc(r.info, c.Fun, "os", "OpenFile") || isPkgFunc(r.info, c.Fun, "os", "Open")) {
		r.repl(sel.X.Pos(), sel.X.End(), "simrt")
		r.counts["R3.open"]++
		return
	}
	if cfg.output && (isPkgFunc(r.info, c.Fun, "os", "OpenFile")) {
		// the events output opened directly: keep the flags, they matter (O_APPEND)
		r.repl(sel.Pos(), sel.End(), "simrt.OpenOutputFile")
		r.counts["R3.output_direct"]++
		return
	}
	if cfg.output && isPkgFunc(r.info, c.Fun, "github.com/metal-toolbox/auditevent/helpers", "OpenAuditLogFileUntilSuccessWithContext") {
		r.repl(sel.Pos(), sel.End(), "simrt.OpenOutput")
		r.counts["R3.output"]++
		return
	}
	if cfg.knobs && isPkgFunc(r.info, c.Fun, "bufio", "NewReader") && len(c.Args) == 1 {
		r.repl(sel.Sel.Pos(), sel.Sel.End(), "NewReaderSize")
		r.ins(c.Rparen, `, simrt.KnobInt("bufio", 4096)`, 10)
		r.counts["R6.bufio"]++
		return
	}
	// methods
	typ, name := methodOf(r.info, sel)
	switch typ {
	case "sync.Mutex", "sync.RWMutex":
		if len(c.Args) != 0 {
			return
		}
		switch name {
		case "Lock", "RLock":
			try := "TryLock"
			if name == "RLock" {
				try = "TryRLock"
			}
			r.ins(c.Pos(), "simrt.Lock(", -10)
			r.repl(sel.Sel.Pos(), c.End(), try+", "+q(r.site(c.Pos(), "lock"))+")")
			r.counts["R1.lock"]++
		case "Unlock", "RUnlock":
			r.ins(c.Pos(), "simrt.Unlock(", -10)
			r.repl(c.Lparen, c.End(), ", "+q(r.site(c.Pos(), "unlock"))+")")
			r.counts["R1.unlock"]++
		}
	case "golang.org/x/sync/errgroup.Group":
		switch name {
		case "Go", "TryGo":
			if len(c.Args) == 1 {
				r.ins(c.Args[0].Pos(), "simrt.WrapErrFn("+q(r.site(c.Pos(), "eg.Go"))+", ", -10)
				r.ins(c.Args[0].End(), ")", 10)
				r.counts["R5.errgroup"]++
			}
		case "Wait":
			r.ins(c.Pos(), "simrt.After(", -10)
			r.ins(c.End(), ", "+q(r.site(c.Pos(), "eg.Wait"))+")", 10)
			r.counts["R4.egwait"]++
		}
	}
}

func applyEdits(src []byte, edits []edit) ([]byte, error) {
	for i := range edits {
		edits[i].seq = i
	}
	class := func(e edit) int {
		if e.start != e.end {
			return 2 // replacement
		}
		if e.prio > 0 {
			return 0 // closing text of a construct that ends here
		}
		return 1 // opening text
	}
	sort.SliceStable(edits, func(i, j int) bool {
		a, b := edits[i], edits[j]
		if a.start != b.start {
			return a.start < b.start
		}
		ca, cb := class(a), class(b)
		if ca != cb {
			return ca < cb
		}
		if ca == 0 {
			return a.seq > b.seq // inner constructs (added later) close first
		}
		return a.seq < b.seq
	})
	var out bytes.Buffer
	pos := 0
	for _, e := range edits {
		if e.start < pos {
			return nil, fmt.Errorf("overlapping edits at %d (pos %d): %q", e.start, pos, e.text)
		}
		out.Write(src[pos:e.start])
		out.WriteString(e.text)
		pos = e.end
	}
	out.Write(src[pos:])
	return out.Bytes(), nil
}

// ---- pass 2: select ----

func rewriteSelects(src []byte, rel string, counts map[string]int) ([]byte, error) {
	for iter := 0; iter < 20; iter++ {
		fset := token.NewFileSet()
		f, err := parser.ParseFile(fset, rel, src, parser.ParseComments)
		if err != nil {
			return nil, fmt.Errorf("pass2 parse: %w", err)
		}
		tf := fset.File(f.Pos())
		off := func(p token.Pos) int { return tf.Offset(p) }
		txt := func(n ast.Node) string { return string(src[off(n.Pos()):off(n.End())]) }
		var edits []edit
		n := 0
		var visit func(node ast.Node) bool
		visit = func(node ast.Node) bool {
			sel, ok := node.(*ast.SelectStmt)
			if !ok {
				return true
			}
			if len(sel.Body.List) == 0 {
				return false
			}
			id := iter*1000 + n
			n++
			line := fset.Position(sel.Pos()).Line
			site := fmt.Sprintf("%s:%d:select", rel, line)
			var inits, names []string
			hasDefault := false
			ok2 := true
			type clauseEdit struct {
				from, to token.Pos
				text     string
			}
			var ces []clauseEdit
			idx := 0
			for _, st := range sel.Body.List {
				cc := st.(*ast.CommClause)
				if cc.Comm == nil {
					hasDefault = true
					continue
				}
				name := fmt.Sprintf("_sim%dc%d", id, idx)
				bind := ""
				switch c := cc.Comm.(type) {
				case *ast.SendStmt:
					inits = append(inits, fmt.Sprintf("simrt.Send(%s).V(%s)", txt(c.Chan), txt(c.Value)))
				case *ast.ExprStmt:
					u, isU := c.X.(*ast.UnaryExpr)
					if !isU || u.Op != token.ARROW {
						ok2 = false
						break
					}
					inits = append(inits, fmt.Sprintf("simrt.Recv(%s)", txt(u.X)))
				case *ast.AssignStmt:
					u, isU := c.Rhs[0].(*ast.UnaryExpr)
					if !isU || u.Op != token.ARROW || len(c.Rhs) != 1 {
						ok2 = false
						break
					}
					inits = append(inits, fmt.Sprintf("simrt.Recv(%s)", txt(u.X)))
					tok := c.Tok.String()
					if len(c.Lhs) == 1 {
						bind = fmt.Sprintf(" %s %s %s.Val;", txt(c.Lhs[0]), tok, name)
						if id0, isId := c.Lhs[0].(*ast.Ident); isId && id0.Name == "_" {
							bind = ""
						}
					} else {
						bind = fmt.Sprintf(" %s, %s %s %s.Val, %s.Ok;", txt(c.Lhs[0]), txt(c.Lhs[1]), tok, name, name)
					}
				default:
					ok2 = false
				}
				if !ok2 {
					break
				}
				names = append(names, name)
				ces = append(ces, clauseEdit{cc.Case, cc.Colon + 1, fmt.Sprintf("case %d:%s", idx, bind)})
				idx++
			}
			if !ok2 || idx == 0 {
				counts["R7.select_unrewritten"]++
				return true
			}
			hdr := fmt.Sprintf("switch %s := %s; simrt.Select(%q, %v, %s) {",
				strings.Join(names, ", "), strings.Join(inits, ", "), site, hasDefault, strings.Join(names, ", "))
			edits = append(edits, edit{start: off(sel.Select), end: off(sel.Body.Lbrace) + 1, text: hdr})
			for _, ce := range ces {
				edits = append(edits, edit{start: off(ce.from), end: off(ce.to), text: ce.text})
			}
			if !hasDefault {
				// keep the statement terminating when every clause terminates
				edits = append(edits, edit{start: off(sel.Body.Rbrace), end: off(sel.Body.Rbrace), text: "default: panic(\"simrt: select returned no clause\");"})
			}
			counts["R7.select"]++
			// bodies may contain nested selects: handled in the next iteration, but only
			// if they are not inside a region we just replaced (they are not: bodies are kept)
			for _, st := range sel.Body.List {
				for _, b := range st.(*ast.CommClause).Body {
					ast.Inspect(b, visit)
				}
			}
			return false
		}
		ast.Inspect(f, visit)
		if len(edits) == 0 {
			return src, nil
		}
		src, err = applyEdits(src, edits)
		if err != nil {
			return nil, err
		}
		// all selects (also nested) were handled in this iteration
		return src, nil
	}
	return src, nil
}

type pkgConfig struct {
	pipeIO bool // os.OpenFile / *os.File -> simrt
	output bool // events output seam
	knobs  bool
}

func configFor(pkgPath string) pkgConfig {
	rel := strings.TrimPrefix(pkgPath, modPath)
	return pkgConfig{
		pipeIO: rel == "/ingesters/namedpipe",
		output: rel == "/cmd",
		knobs:  rel == "/cmd" || rel == "/ingesters/namedpipe" || rel == "/processors/auditd/dirreader",
	}
}

func main() {
	repo := flag.String("repo", "/repo", "repository root")
	out := flag.String("out", "", "output directory for rewritten files + overlay.json")
	simrtDir := flag.String("simrt", "", "directory with the simrt sources")
	extraDir := flag.String("extra", "", "directory tree with files to add to repo packages")
	flag.Parse()
	if *out == "" || *simrtDir == "" {
		fmt.Fprintln(os.Stderr, "usage: simgen -out DIR -simrt DIR [-extra DIR] [-repo DIR]")
		os.Exit(2)
	}
	cfg := &packages.Config{
		Mode: packages.NeedName | packages.NeedFiles | packages.NeedCompiledGoFiles | packages.NeedSyntax |
			packages.NeedTypes | packages.NeedTypesInfo | packages.NeedImports,
		Dir: *repo,
		Env: append(os.Environ(), "GOFLAGS=-mod=mod", "GOPROXY=off", "GOSUMDB=off"),
	}
	pkgs, err := packages.Load(cfg, "./...")
	if err != nil {
		fmt.Fprintln(os.Stderr, "simgen: load:", err)
		os.Exit(2)
	}
	overlay := map[string]string{}
	total := map[string]int{}
	bad := false
	for _, p := range pkgs {
		rel := strings.TrimPrefix(p.PkgPath, modPath)
		if strings.HasPrefix(rel, "/internal/simrt") || strings.HasPrefix(rel, "/internal/integration_tests") ||
			strings.HasPrefix(rel, "/internal/testtools") || strings.Contains(rel, "gen-extra-map") ||
			strings.HasSuffix(rel, "/fakes") {
			continue
		}
		if len(p.Errors) > 0 {
			for _, e := range p.Errors {
				fmt.Fprintln(os.Stderr, "simgen: package error:", e)
			}
			bad = true
			continue
		}
		pc := configFor(p.PkgPath)
		for i, f := range p.Syntax {
			fn := p.CompiledGoFiles[i]
			if !strings.HasPrefix(fn, *repo) || strings.HasSuffix(fn, "_test.go") {
				continue
			}
			src, err := os.ReadFile(fn)
			if err != nil {
				fmt.Fprintln(os.Stderr, "simgen:", err)
				os.Exit(2)
			}
			relFile, _ := filepath.Rel(*repo, fn)
			r := &fileRewriter{fset: p.Fset, file: f, src: src, tf: p.Fset.File(f.Pos()), info: p.TypesInfo,
				pkgPath: p.PkgPath, rel: relFile, counts: map[string]int{}}
			r.pass1(pc)
			hasSelect := bytes.Contains(src, []byte("select"))
			if len(r.edits) == 0 && !hasSelect {
				continue
			}
			res, err := applyEdits(src, r.edits)
			if err != nil {
				fmt.Fprintf(os.Stderr, "simgen: %s: %v\n", relFile, err)
				os.Exit(2)
			}
			res, err = rewriteSelects(res, relFile, r.counts)
			if err != nil {
				fmt.Fprintf(os.Stderr, "simgen: %s: %v\n", relFile, err)
				os.Exit(2)
			}
			nEd := 0
			for k, v := range r.counts {
				total[k] += v
				if !strings.HasSuffix(k, "unrewritten") {
					nEd += v
				}
			}
			if nEd == 0 {
				continue
			}
			// import + keep-alives for imports that may have become unused
			fs2 := token.NewFileSet()
			f2, err := parser.ParseFile(fs2, relFile, res, parser.ParseComments)
			if err != nil {
				fmt.Fprintf(os.Stderr, "simgen: %s: rewritten file does not parse: %v\n", relFile, err)
				os.WriteFile(filepath.Join(*out, "FAILED_"+filepath.Base(relFile)), res, 0o644)
				os.Exit(2)
			}
			tf2 := fs2.File(f2.Pos())
			insAt := tf2.Offset(f2.Name.End())
			var keep []string
			for _, im := range f2.Imports {
				path := strings.Trim(im.Path.Value, `"`)
				if im.Name != nil {
					continue
				}
				switch path {
				case "os":
					if r.counts["R3.open"]+r.counts["R3.osFile"]+r.counts["R3.output_direct"] > 0 {
						keep = append(keep, "var _ = os.ErrClosed")
					}
				case "github.com/metal-toolbox/auditevent/helpers":
					if r.counts["R3.output"] > 0 {
						keep = append(keep, "var _ = helpers.OpenAuditLogFileUntilSuccessWithContext")
					}
				case "time":
					if r.counts["R4.sleep"] > 0 {
						keep = append(keep, "var _ = time.Second")
					}
				}
			}
			var b bytes.Buffer
			b.Write(res[:insAt])
			b.WriteString("\n\nimport simrt " + q(simrtImport) + "\n")
			b.Write(res[insAt:])
			for _, k := range keep {
				b.WriteString("\n" + k + "\n")
			}
			final, err := format.Source(b.Bytes())
			if err != nil {
				fmt.Fprintf(os.Stderr, "simgen: %s: gofmt of rewritten file failed: %v\n", relFile, err)
				os.WriteFile(filepath.Join(*out, "FAILED_"+filepath.Base(relFile)), b.Bytes(), 0o644)
				os.Exit(2)
			}
			dst := filepath.Join(*out, "repo", relFile)
			os.MkdirAll(filepath.Dir(dst), 0o755)
			if err := os.WriteFile(dst, final, 0o644); err != nil {
				fmt.Fprintln(os.Stderr, "simgen:", err)
				os.Exit(2)
			}
			overlay[fn] = dst
		}
	}
	if bad {
		os.Exit(2)
	}
	// simrt package
	ents, err := os.ReadDir(*simrtDir)
	if err != nil {
		fmt.Fprintln(os.Stderr, "simgen:", err)
		os.Exit(2)
	}
	for _, e := range ents {
		if strings.HasSuffix(e.Name(), ".go") && !strings.HasSuffix(e.Name(), "_test.go") {
			overlay[filepath.Join(*repo, "internal", "simrt", e.Name())] = filepath.Join(*simrtDir, e.Name())
		}
	}
	// extra files
	if *extraDir != "" {
		filepath.Walk(*extraDir, func(path string, fi os.FileInfo, err error) error {
			if err != nil || fi.IsDir() || !strings.HasSuffix(path, ".go") {
				return nil
			}
			rel, _ := filepath.Rel(*extraDir, path)
			overlay[filepath.Join(*repo, rel)] = path
			return nil
		})
	}
	ov, _ := json.MarshalIndent(map[string]any{"Replace": overlay}, "", " ")
	if err := os.WriteFile(filepath.Join(*out, "overlay.json"), ov, 0o644); err != nil {
		fmt.Fprintln(os.Stderr, "simgen:", err)
		os.Exit(2)
	}
	cj, _ := json.MarshalIndent(total, "", " ")
	os.WriteFile(filepath.Join(*out, "rewrite_counts.json"), cj, 0o644)
	fmt.Println(string(cj))
}
