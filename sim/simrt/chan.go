package simrt

import (
	"reflect"
)

// passthrough reports whether the calling goroutine must not be scheduled (no simulation,
// the scheduler itself, or teardown).
func passthrough(site string) (*Sim, *Task, bool) {
	s := cur.Load()
	if s == nil {
		return nil, nil, true
	}
	t := s.task(site)
	if t.inline {
		return s, t, true
	}
	return s, t, false
}

// ChanRecv replaces `<-c`.
func ChanRecv[T any](c <-chan T, site string) T {
	s, t, pt := passthrough(site)
	if pt {
		return <-c
	}
	s.park(t, site, "point")
	select {
	case v := <-c:
		return v
	default:
	}
	t.setSite(site)
	v := <-c
	s.park(t, site+"+", "point")
	return v
}

// ChanRecv2 replaces `v, ok := <-c`.
func ChanRecv2[T any](c <-chan T, site string) (T, bool) {
	s, t, pt := passthrough(site)
	if pt {
		v, ok := <-c
		return v, ok
	}
	s.park(t, site, "point")
	select {
	case v, ok := <-c:
		return v, ok
	default:
	}
	t.setSite(site)
	v, ok := <-c
	s.park(t, site+"+", "point")
	return v, ok
}

// Sender is the receiver of a rewritten send statement: `c <- v` becomes
// simrt.ChanSender(c, site).Send(v), so that v is converted to the element type as in the
// original statement.
type Sender[T any] struct {
	c    chan<- T
	site string
}

func ChanSender[T any](c chan<- T, site string) Sender[T] { return Sender[T]{c, site} }

func (s Sender[T]) Send(v T) { ChanSend(s.c, v, s.site) }

// ChanSend performs `c <- v` as a scheduled operation.
func ChanSend[T any](c chan<- T, v T, site string) {
	s, t, pt := passthrough(site)
	if pt {
		c <- v
		return
	}
	s.park(t, site, "point")
	select {
	case c <- v:
		return
	default:
	}
	t.setSite(site)
	s.Count("chan.send_blocked")
	c <- v
	s.park(t, site+"+", "point")
}

// ChanClose replaces close(c).
func ChanClose[T any](c chan<- T, site string) {
	Point(site)
	close(c)
}

// Case is one communication clause of a rewritten select.
type Case interface {
	rcase() reflect.SelectCase
	set(v reflect.Value, ok bool)
}

// RecvCase is `case v, ok := <-c`.
type RecvCase[T any] struct {
	ch  <-chan T
	Val T
	Ok  bool
}

func Recv[T any](c <-chan T) *RecvCase[T] { return &RecvCase[T]{ch: c} }

func (r *RecvCase[T]) rcase() reflect.SelectCase {
	return reflect.SelectCase{Dir: reflect.SelectRecv, Chan: reflect.ValueOf(r.ch)}
}

func (r *RecvCase[T]) set(v reflect.Value, ok bool) {
	r.Ok = ok
	if ok {
		r.Val = v.Interface().(T)
	}
}

// SendCase is `case c <- v`.
type SendCase struct {
	ch, v reflect.Value
}

// SendBuilder carries the channel of `case c <- v` until the value is supplied.
type SendBuilder[T any] struct{ c chan<- T }

func Send[T any](c chan<- T) SendBuilder[T] { return SendBuilder[T]{c} }

func (b SendBuilder[T]) V(v T) *SendCase {
	var p *T = &v
	return &SendCase{ch: reflect.ValueOf(b.c), v: reflect.ValueOf(p).Elem()}
}

func (r *SendCase) rcase() reflect.SelectCase {
	return reflect.SelectCase{Dir: reflect.SelectSend, Chan: r.ch, Send: r.v}
}
func (r *SendCase) set(reflect.Value, bool) {}

var defaultCase = reflect.SelectCase{Dir: reflect.SelectDefault}

// Select replaces a select statement. It returns the index of the chosen clause, or -1
// for default. Under simulation the ready clause is chosen by the tape (rotation start).
func Select(site string, hasDefault bool, cases ...Case) int {
	s, t, pt := passthrough(site)
	rc := make([]reflect.SelectCase, 0, len(cases)+1)
	for _, c := range cases {
		rc = append(rc, c.rcase())
	}
	if pt {
		if hasDefault {
			rc = append(rc, defaultCase)
		}
		i, v, ok := reflect.Select(rc)
		if i == len(cases) {
			return -1
		}
		cases[i].set(v, ok)
		return i
	}
	s.park(t, site, "point")
	n := len(cases)
	start := 0
	if n > 1 {
		start = s.Tape.ChooseBiased(n, "select")
	}
	nready := 0
	chosen := -1
	for k := 0; k < n; k++ {
		i := (start + k) % n
		if chosen < 0 {
			j, v, ok := reflect.Select([]reflect.SelectCase{rc[i], defaultCase})
			if j == 0 {
				cases[i].set(v, ok)
				chosen = i
				nready++
			}
		}
	}
	if chosen >= 0 {
		return chosen
	}
	if hasDefault {
		return -1
	}
	t.setSite(site)
	i, v, ok := reflect.Select(rc)
	cases[i].set(v, ok)
	s.park(t, site+"+", "point")
	return i
}
