//go:build !race

package simrt

// RaceBuild reports whether the binary was built with -race.
const RaceBuild = false

func raceDisable()      {}
func raceEnable()       {}
func raceTaskToSched()  {}
func raceSchedAcquire() {}
