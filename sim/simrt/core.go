// Package simrt is the runtime of the deterministic simulator. It is NOT part of
// metal-toolbox/audito-maldito: the verification machinery under /verif overlays it
// into the repository module as internal/simrt at check time (go build -overlay), and
// simgen rewrites the repository's synchronisation operations into calls of this package.
//
// With no simulation installed every entry point degenerates to the original operation.
package simrt

import (
	"fmt"
	"hash/fnv"
	"runtime"
	"sort"
	"strings"
	"sync"
	"sync/atomic"
	"time"
)

// cur is the installed simulation (nil: pass-through).
var cur atomic.Pointer[Sim]

// Task is one goroutine known to the scheduler.
type Task struct {
	Name  string
	gid   int64
	wake  chan struct{}
	Site  string // where it is parked
	Kind  string // "point" | "lock"
	Steps int

	lockBlocked bool
	lockEpoch   uint64
	parked      bool
	exited      bool
	live        bool
	inline      bool // passes through every point (scheduler / oracle goroutine)
	children    int
	Daemon      bool // world-model task (not code under test); informational
}

type counter struct {
	name string
	n    int
}

//go:norace
func bump(cs *[]counter, name string, d int) int {
	for i := range *cs {
		if (*cs)[i].name == name {
			(*cs)[i].n += d
			return (*cs)[i].n
		}
	}
	*cs = append(*cs, counter{name, d})
	return d
}

// PanicRec is a panic recovered from a task body.
type PanicRec struct {
	Task  string
	Value string
	Stack string
}

// Sim is one simulated run.
type Sim struct {
	mu          sync.Mutex
	tasks       []*Task // every task ever registered (no maps: map operations are visible to the race detector even in norace code)
	anon        []counter
	stats       []counter
	unlockEpoch uint64
	draining    bool

	Tape       *Tape
	Quiesce    func()         // synctest.Wait, installed by the harness
	Knobs      map[string]int // written by the scenario before tasks start; read-only afterwards
	HeldPoints bool           // scheduling point before every unlock (set before tasks start)

	// event log
	hash      uint64
	nEvents   int
	Trace     []string // rendered events, kept only if KeepTrace
	KeepTrace bool
	Steps     int
	Panics    []PanicRec

	// scheduling state
	lastTask  *Task
	Policy    Policy
	prio      map[string]int
	prioNext  int
	changeAt  map[int]bool
	SchedHash uint64
	Preempts  int
	SweepTask string
	SweepAt   int
	// SweepBefore: number of other tasks that run to completion before SweepTask starts
	SweepBefore int
	// Frozen, if set, withholds tasks from scheduling (a stalled / starved goroutine)
	Frozen func(name string) bool
	// Slow, if set, returns N > 1 for a slow task: it is eligible only on every N-th
	// scheduler step as long as some other task can run (a slow consumer / slow thread)
	Slow func(name string) int

	// stubs
	pipes  map[string]*SimPipe
	Output *SimDisk
}

// Policy names.
type Policy int

const (
	PolicyRandom     Policy = iota // uniform among ready tasks at each step
	PolicyRunToBlock               // keep running the current task while it is ready (0 = simplest)
	PolicyPCT                      // random priorities with d change points
	PolicyBiased                   // continue the current task with probability Tape.Bias, else uniform
	PolicySweep                    // single preemption: run SweepTask for SweepAt steps, then everybody else, then resume it
)

// New creates a simulation reading its decisions from tape.
func New(tape *Tape) *Sim {
	s := &Sim{
		Tape:      tape,
		Knobs:     map[string]int{},
		prio:      map[string]int{},
		changeAt:  map[int]bool{},
		pipes:     map[string]*SimPipe{},
		hash:      14695981039346656037,
		SchedHash: 14695981039346656037,
	}
	return s
}

// Install makes s the current simulation and marks the calling goroutine (the scheduler)
// as inline.
func (s *Sim) Install() {
	s.mu.Lock()
	g := goid()
	t := &Task{Name: "~sched", gid: g, inline: true}
	s.tasks = append(s.tasks, t)
	s.mu.Unlock()
	cur.Store(s)
}

// Uninstall removes the simulation.
func (s *Sim) Uninstall() { cur.CompareAndSwap(s, nil) }

// Active reports whether a simulation is installed.
func Active() bool { return cur.Load() != nil }

// Current returns the installed simulation or nil.
func Current() *Sim { return cur.Load() }

func goid() int64 {
	var buf [64]byte
	n := runtime.Stack(buf[:], false)
	// "goroutine 123 ["
	var id int64
	for i := len("goroutine "); i < n; i++ {
		c := buf[i]
		if c < '0' || c > '9' {
			break
		}
		id = id*10 + int64(c-'0')
	}
	return id
}

//go:norace
func (s *Sim) lock() {
	raceDisable()
	s.mu.Lock()
}

//go:norace
func (s *Sim) unlock() {
	s.mu.Unlock()
	raceEnable()
}

// Logf appends an event to the run's event log (hash always, text if KeepTrace).
// It never draws from the tape and never reads a clock.
//
//go:norace
func (s *Sim) Logf(format string, a ...any) {
	s.lock()
	s.logLocked(fmt.Sprintf(format, a...))
	s.unlock()
}

//go:norace
func (s *Sim) logLocked(ev string) {
	h := fnv.New64a()
	var b [8]byte
	for i := 0; i < 8; i++ {
		b[i] = byte(s.hash >> (8 * i))
	}
	h.Write(b[:])
	h.Write([]byte(ev))
	s.hash = h.Sum64()
	s.nEvents++
	if s.KeepTrace {
		s.Trace = append(s.Trace, ev)
	}
}

// EventCount is the number of events logged so far (a global sequence number usable as a
// common time axis for deliveries and output writes).
//
//go:norace
func (s *Sim) EventCount() int {
	s.lock()
	n := s.nEvents
	s.unlock()
	return n
}

// Digest is the hash of the full event log so far.
func (s *Sim) Digest() string {
	s.lock()
	h, n := s.hash, s.nEvents
	s.unlock()
	return fmt.Sprintf("%016x/%d", h, n)
}

// Count increments a fault/probe counter.
//
//go:norace
func (s *Sim) Count(name string) {
	s.lock()
	bump(&s.stats, name, 1)
	s.unlock()
}

// Count increments a counter of the current simulation, if any.
func Count(name string) {
	if s := cur.Load(); s != nil {
		s.Count(name)
	}
}

// task returns the Task of the calling goroutine, creating an anonymous one named after
// site if the goroutine is unknown (started inside a dependency).
//
//go:norace
func (s *Sim) task(site string) *Task {
	g := goid()
	s.lock()
	t := s.byGidLocked(g)
	s.unlock()
	if t != nil {
		return t
	}
	// unknown goroutine (started inside a dependency): name it after the site. No fmt calls
	// while the detector ignores synchronisation (sync.Pool inside fmt relies on it).
	s.lock()
	k := bump(&s.anon, site, 1) - 1
	s.unlock()
	name := fmt.Sprintf("anon:%s#%d", site, k)
	t = &Task{Name: name, gid: g, wake: make(chan struct{}), live: true}
	s.lock()
	s.tasks = append(s.tasks, t)
	s.logLocked("task+ " + name)
	s.unlock()
	return t
}

//go:norace
func (s *Sim) byGidLocked(g int64) *Task {
	for _, t := range s.tasks {
		if t.gid == g && !t.exited {
			return t
		}
	}
	return nil
}

// park blocks the calling task until the scheduler releases it.
//
//go:norace
func (s *Sim) park(t *Task, site, kind string) {
	if t.inline {
		return
	}
	s.lock()
	if s.draining {
		s.unlock()
		return
	}
	t.Site, t.Kind, t.parked = site, kind, true
	s.unlock()
	raceTaskToSched()
	raceDisable()
	<-t.wake
	raceEnable()
}

// Point is a scheduling point: the calling task parks until released.
//
//go:norace
func Point(site string) {
	s := cur.Load()
	if s == nil {
		return
	}
	t := s.task(site)
	s.park(t, site, "point")
}

// After returns v after passing a scheduling point (placed after blocking calls).
func After[T any](v T, site string) T {
	Point(site)
	return v
}

// TaskStart names the calling goroutine after site (if unknown) and parks it.
func TaskStart(site string) { Point(site) }

// taskExit marks the calling task finished.
//
//go:norace
func (s *Sim) taskExit(t *Task) {
	raceTaskToSched()
	s.lock()
	t.exited = true
	t.live = false
	s.logLocked("task- " + t.Name)
	s.unlock()
}

//go:norace
func (s *Sim) recoverTask(t *Task) {
	if r := recover(); r != nil {
		buf := make([]byte, 16<<10)
		n := runtime.Stack(buf, false)
		val := fmt.Sprint(r)
		s.lock()
		s.Panics = append(s.Panics, PanicRec{Task: t.Name, Value: val, Stack: string(buf[:n])})
		s.logLocked("panic " + t.Name + " " + val)
		s.unlock()
	}
}

// spawn starts f as a task called name. The child parks before running f.
//
//go:norace
func (s *Sim) spawn(name string, daemon bool, f func()) *Task {
	t := &Task{Name: name, wake: make(chan struct{}), Daemon: daemon, live: true}
	s.lock()
	s.tasks = append(s.tasks, t)
	s.logLocked("task+ " + name)
	s.unlock()
	started := make(chan struct{})
	go s.childMain(t, started, f)
	raceDisable()
	<-started
	raceEnable()
	return t
}

//go:norace
func (s *Sim) childMain(t *Task, started chan struct{}, f func()) {
	g := goid()
	s.lock()
	t.gid = g
	s.unlock()
	raceDisable()
	close(started)
	raceEnable()
	defer s.taskExit(t)
	defer s.recoverTask(t)
	s.park(t, "start", "point")
	f()
}

// Spawn starts a harness task (world model or caller of the code under test).
func (s *Sim) Spawn(name string, f func()) *Task { return s.spawn(name, true, f) }

// Go replaces a `go` statement of the code under test.
//
//go:norace
func Go(site string, f func()) {
	s := cur.Load()
	if s == nil {
		go f()
		return
	}
	p := s.task(site)
	s.lock()
	k := p.children
	p.children++
	s.unlock()
	s.spawn(fmt.Sprintf("%s/%s#%d", p.Name, site, k), false, f)
}

func Go1[A any](site string, f func(A), a A) { Go(site, func() { f(a) }) }
func Go2[A, B any](site string, f func(A, B), a A, b B) {
	Go(site, func() { f(a, b) })
}
func Go3[A, B, C any](site string, f func(A, B, C), a A, b B, c C) {
	Go(site, func() { f(a, b, c) })
}
func Go4[A, B, C, D any](site string, f func(A, B, C, D), a A, b B, c C, d D) {
	Go(site, func() { f(a, b, c, d) })
}

// WrapErrFn wraps a function handed to errgroup.Group.Go.
func WrapErrFn(site string, f func() error) func() error {
	return func() (err error) {
		s := cur.Load()
		if s == nil {
			return f()
		}
		t := s.task(site)
		defer s.taskExit(t)
		// a panic in a worker would kill the daemon process: it is recorded (the harness reports
		// it) and the worker group is told to stop, instead of killing the simulator
		defer func() {
			if r := recover(); r != nil {
				buf := make([]byte, 16<<10)
				n := runtime.Stack(buf, false)
				val := fmt.Sprint(r)
				s.lock()
				s.Panics = append(s.Panics, PanicRec{Task: t.Name, Value: val, Stack: string(buf[:n])})
				s.logLocked("panic " + t.Name + " " + val)
				s.unlock()
				err = fmt.Errorf("worker %s panicked: %s", site, val)
			}
		}()
		s.park(t, site, "point")
		return f()
	}
}

// Lock replaces m.Lock(): a scheduling point followed by TryLock; while the lock is held
// by another (parked) task the caller stays ineligible until some Unlock happened.
//
//go:norace
func Lock(try func() bool, site string) {
	s := cur.Load()
	if s == nil {
		for !try() {
			runtime.Gosched()
		}
		return
	}
	t := s.task(site)
	if t.inline {
		// the scheduler goroutine runs code under test on its own (sequential reference
		// executions): nobody else can release a lock, so a busy lock is a self-deadlock
		if !try() {
			panic(InlineDeadlock{Site: site})
		}
		return
	}
	t.lockBlocked = false
	spins := 0
	for {
		s.park(t, site, "lock")
		s.lock()
		dr := s.draining
		s.unlock()
		if try() {
			t.lockBlocked = false
			return
		}
		if dr {
			// teardown: everything runs freely. A task that still cannot get its lock after
			// many yields is part of a deadlock of the code under test (already reported);
			// unwind it so that its deferred unlocks release the others.
			spins++
			if spins > 500 {
				runtime.Goexit()
			}
			runtime.Gosched()
			continue
		}
		s.lock()
		t.lockBlocked = true
		t.lockEpoch = s.unlockEpoch
		bump(&s.stats, "lock.contended", 1)
		s.unlock()
	}
}

// InlineDeadlock is the panic value raised when sequentially executed code under test tries
// to take a lock that is already held (it would block forever).
type InlineDeadlock struct{ Site string }

func (d InlineDeadlock) Error() string {
	return "lock already held in a sequential execution at " + d.Site
}

// Unlock replaces m.Unlock().
//
//go:norace
func Unlock(unlock func(), site string) {
	if s := cur.Load(); s != nil && s.HeldPoints {
		// a thread can be preempted inside a critical section too: in runs that enable it, a task
		// may be held right before it releases a lock (matters for TryLock users)
		Point(site + ":held")
	}
	unlock()
	s := cur.Load()
	if s == nil {
		return
	}
	s.lock()
	s.unlockEpoch++
	s.unlock()
}

// Sleep replaces time.Sleep in code under test.
func Sleep(d time.Duration, site string) {
	time.Sleep(d)
	Point(site + "+")
}

// ---- scheduler side ----

// Ready returns the parked tasks that may run, sorted by name.
//
//go:norace
func (s *Sim) Ready() []*Task {
	s.lock()
	defer s.unlock()
	var r, slow []*Task
	for _, t := range s.tasks {
		if !t.parked || t.lockBlocked && t.lockEpoch == s.unlockEpoch {
			continue
		}
		if s.Frozen != nil && s.Frozen(t.Name) {
			continue
		}
		if s.Slow != nil {
			if n := s.Slow(t.Name); n > 1 && s.Steps%n != 0 {
				slow = append(slow, t)
				continue
			}
		}
		r = append(r, t)
	}
	if len(r) == 0 {
		r = slow
	}
	sort.Slice(r, func(i, j int) bool { return r[i].Name < r[j].Name })
	return r
}

// Parked returns all parked tasks (including lock-blocked ones), sorted by name.
//
//go:norace
func (s *Sim) Parked() []*Task {
	s.lock()
	defer s.unlock()
	var r []*Task
	for _, t := range s.tasks {
		if t.parked {
			r = append(r, t)
		}
	}
	sort.Slice(r, func(i, j int) bool { return r[i].Name < r[j].Name })
	return r
}

// Live returns the names of all tasks that have not exited, with where they are.
//
//go:norace
func (s *Sim) Live() []string {
	s.lock()
	defer s.unlock()
	var r []string
	for _, t := range s.tasks {
		if !t.live {
			continue
		}
		st := "running-or-blocked"
		if t.parked {
			st = t.Kind + "@" + t.Site
			if t.lockBlocked && t.lockEpoch == s.unlockEpoch {
				st = "LOCKWAIT@" + t.Site
			}
		} else if t.Site != "" {
			st = "blocked-after@" + t.Site
		}
		r = append(r, t.Name+" "+st)
	}
	sort.Strings(r)
	return r
}

// LockWaiters returns the names of the tasks that wait for a lock nobody released.
//
//go:norace
func (s *Sim) LockWaiters() []string {
	s.lock()
	defer s.unlock()
	var r []string
	for _, t := range s.tasks {
		if t.parked && t.lockBlocked && t.lockEpoch == s.unlockEpoch {
			r = append(r, t.Name+"@"+t.Site)
		}
	}
	sort.Strings(r)
	return r
}

// Release lets t run until its next point; the caller must Quiesce afterwards.
//
//go:norace
func (s *Sim) Release(t *Task) {
	s.lock()
	t.parked = false
	t.Steps++
	s.Steps++
	s.logLocked("run " + t.Name + " " + t.Kind + "@" + t.Site)
	h := fnv.New64a()
	var b [8]byte
	for i := 0; i < 8; i++ {
		b[i] = byte(s.SchedHash >> (8 * i))
	}
	h.Write(b[:])
	h.Write([]byte(t.Name))
	h.Write([]byte(t.Site))
	s.SchedHash = h.Sum64()
	if s.lastTask != nil && s.lastTask != t && s.lastTask.parked {
		s.Preempts++
	}
	s.lastTask = t
	s.unlock()
	raceDisable()
	t.wake <- struct{}{}
	raceEnable()
}

// Pick chooses the next task among ready according to the policy; the decision comes
// from the tape. Choice 0 is always "the simplest": continue the task that ran last if it
// is still ready, else the first by name.
func (s *Sim) Pick(ready []*Task) *Task {
	if len(ready) == 1 {
		return ready[0]
	}
	// rotate so that index 0 = last task if present
	idx0 := 0
	for i, t := range ready {
		if t == s.lastTask {
			idx0 = i
			break
		}
	}
	order := make([]*Task, 0, len(ready))
	order = append(order, ready[idx0])
	for i, t := range ready {
		if i != idx0 {
			order = append(order, t)
		}
	}
	if s.Tape.Replaying() {
		return order[s.Tape.Choose(len(order), "sched")]
	}
	idx := 0
	switch s.Policy {
	case PolicyRunToBlock:
		idx = 0
	case PolicyPCT:
		if s.changeAt[s.Steps] {
			best := s.bestPrio(order)
			s.prioNext--
			s.prio[best.Name] = s.prioNext
		}
		best := s.bestPrio(order)
		for i, t := range order {
			if t == best {
				idx = i
			}
		}
	case PolicyBiased:
		idx = -1
	case PolicySweep:
		// order[0] is the task that ran last (if ready)
		var des *Task
		for _, t := range order {
			if t.Name == s.SweepTask {
				des = t
			}
		}
		pickIdx := func(want func(*Task) bool) int {
			for i, t := range order {
				if want(t) {
					return i
				}
			}
			return -1
		}
		exitedOthers := 0
		for _, t := range s.tasks {
			if t.exited && t.Name != s.SweepTask {
				exitedOthers++
			}
		}
		if des != nil && des.Steps == 0 && exitedOthers < s.SweepBefore {
			// first let SweepBefore other tasks run to completion (order[0] is the task
			// that ran last, so a started task is continued)
			idx = pickIdx(func(t *Task) bool { return t != des })
			if idx < 0 {
				idx = 0
			}
		} else if des != nil && des.Steps < s.SweepAt {
			idx = pickIdx(func(t *Task) bool { return t == des })
		} else {
			idx = pickIdx(func(t *Task) bool { return t != des })
			if idx < 0 {
				idx = 0
			}
		}
	default:
		idx = -2
	}
	switch idx {
	case -1:
		return order[s.Tape.ChooseBiased(len(order), "sched")]
	case -2:
		return order[s.Tape.Choose(len(order), "sched")]
	}
	s.Tape.Record(idx, "sched")
	return order[idx]
}

func (s *Sim) bestPrio(ts []*Task) *Task {
	var best *Task
	bp := 0
	for _, t := range ts {
		p, ok := s.prio[t.Name]
		if !ok {
			// new task: random priority from the tape's PRNG (not recorded; PCT decisions
			// are recorded as the resulting index)
			p = 1000 + s.Tape.Aux(1000000)
			s.prio[t.Name] = p
		}
		if best == nil || p > bp {
			best, bp = t, p
		}
	}
	return best
}

// InitPCT draws d priority change points in [0,maxSteps).
func (s *Sim) InitPCT(d, maxSteps int) {
	s.Policy = PolicyPCT
	for i := 0; i < d; i++ {
		s.changeAt[s.Tape.Aux(maxSteps)] = true
	}
}

// Q waits until every other goroutine of the bubble is parked or durably blocked and makes
// what the tasks did so far visible to the scheduler goroutine (race builds).
func (s *Sim) Q() {
	s.Quiesce()
	raceSchedAcquire()
}

// setSite notes where a task is about to block (diagnostics).
//
//go:norace
func (t *Task) setSite(site string) { t.Site = site }

// StepOne runs one scheduling decision. It returns false if no task is ready.
func (s *Sim) StepOne() bool {
	s.Q()
	ready := s.Ready()
	if len(ready) == 0 {
		return false
	}
	s.Release(s.Pick(ready))
	s.Q()
	return true
}

// RunUntil runs scheduling decisions until stop() is true, nothing is ready, or the step
// budget is exhausted. It reports why it stopped: "stop", "idle", "budget".
func (s *Sim) RunUntil(stop func() bool, maxSteps int) string {
	for i := 0; i < maxSteps; i++ {
		s.Q()
		if stop != nil && stop() {
			return "stop"
		}
		ready := s.Ready()
		if len(ready) == 0 {
			return "idle"
		}
		s.Release(s.Pick(ready))
	}
	s.Q()
	return "budget"
}

// Advance moves the fake clock by d in steps of quantum, running all tasks that become
// ready to quiescence after each quantum (fair, "advance at quiescence only").
func (s *Sim) Advance(d, quantum time.Duration, maxSteps int) string {
	for el := time.Duration(0); el < d; el += quantum {
		time.Sleep(quantum)
		s.Logf("clock +%v", quantum)
		if r := s.RunUntil(nil, maxSteps); r == "budget" {
			return r
		}
	}
	return "ok"
}

// Drain lets every task run freely (all points pass through); used at teardown.
//
//go:norace
func (s *Sim) Drain() {
	s.lock()
	s.draining = true
	var ts []*Task
	for _, t := range s.tasks {
		if t.parked {
			t.parked = false
			ts = append(ts, t)
		}
	}
	s.unlock()
	for _, t := range ts {
		raceDisable()
		t.wake <- struct{}{}
		raceEnable()
	}
}

// Deadlocked reports tasks that wait for a lock while nothing else can run.
func (s *Sim) Deadlocked() []string {
	if len(s.Ready()) > 0 {
		return nil
	}
	return s.LockWaiters()
}

// Keys returns the keys of m sorted by their printed form and then permuted by the tape
// (map iteration order is a taped decision; choice 0 = sorted order).
func Keys[K comparable, V any](m map[K]V) []K {
	ks := make([]K, 0, len(m))
	for k := range m {
		ks = append(ks, k)
	}
	if len(ks) < 2 {
		return ks
	}
	s := cur.Load()
	strs := make(map[any]string, len(ks))
	for _, k := range ks {
		strs[k] = fmt.Sprint(k)
	}
	sort.Slice(ks, func(i, j int) bool {
		a, b := strs[ks[i]], strs[ks[j]]
		if len(a) != len(b) {
			return len(a) < len(b)
		}
		return a < b
	})
	if s == nil {
		return ks
	}
	// taped rotation + optional reversal is enough to make any key first / last
	r := s.Tape.ChooseBiased(len(ks)*2, "maporder")
	if r != 0 {
		s.Count("maporder.permute")
	}
	rot := r % len(ks)
	out := append(append([]K{}, ks[rot:]...), ks[:rot]...)
	if r >= len(ks) {
		for i, j := 0, len(out)-1; i < j; i, j = i+1, j-1 {
			out[i], out[j] = out[j], out[i]
		}
	}
	return out
}

// Pair is a key/value snapshot entry.
type Pair[K comparable, V any] struct {
	K K
	V V
}

// Pairs is Keys for range expressions with side effects (values are snapshotted).
func Pairs[K comparable, V any](m map[K]V) []Pair[K, V] {
	ks := Keys(m)
	out := make([]Pair[K, V], 0, len(ks))
	for _, k := range ks {
		out = append(out, Pair[K, V]{k, m[k]})
	}
	return out
}

// KnobInt returns the taped value of a tuning constant (default when not simulated or
// not configured).
func KnobInt(name string, def int) int {
	s := cur.Load()
	if s == nil {
		return def
	}
	s.Count("knob." + name)
	if v, ok := s.Knobs[name]; ok {
		return v
	}
	return def
}

// SiteSummary renders "name kind@site" of parked tasks (diagnostics).
func (s *Sim) SiteSummary() string { return strings.Join(s.Live(), "; ") }

// StatsMap returns the fault / probe counters of the run.
//
//go:norace
func (s *Sim) StatsMap() map[string]int {
	s.lock()
	defer s.unlock()
	m := map[string]int{}
	for _, c := range s.stats {
		m[c.name] = c.n
	}
	return m
}
