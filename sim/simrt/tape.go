package simrt

// prng is a tiny splitmix64 generator. It lives here (instead of math/rand) so that draws
// made from different simulated tasks are invisible to the race detector (norace).
type prng struct{ x uint64 }

//go:norace
func (p *prng) next() uint64 {
	p.x += 0x9e3779b97f4a7c15
	z := p.x
	z = (z ^ (z >> 30)) * 0xbf58476d1ce4e5b9
	z = (z ^ (z >> 27)) * 0x94d049bb133111eb
	return z ^ (z >> 31)
}

//go:norace
func (p *prng) Intn(n int) int { return int(p.next() % uint64(n)) }

//go:norace
func (p *prng) Float64() float64 { return float64(p.next()>>11) / (1 << 53) }

// Tape is the single source of decisions of a run. In generate mode decisions are drawn
// from a PRNG seeded with one integer and recorded; in replay mode they are read from the
// recording, and past its end every decision is 0 ("the simplest choice").
type Tape struct {
	Seed       uint64
	rng        *prng
	aux        *prng
	replaying  bool
	rec        []int
	pos        int
	Out        []int   // every decision taken in this run
	Bias       float64 // probability of 0 in ChooseBiased (generate mode)
	Labels     []string
	KeepLabels bool
}

// splitmix64 step.
func Mix(x uint64) uint64 {
	x += 0x9e3779b97f4a7c15
	z := x
	z = (z ^ (z >> 30)) * 0xbf58476d1ce4e5b9
	z = (z ^ (z >> 27)) * 0x94d049bb133111eb
	return z ^ (z >> 31)
}

// NewTape returns a generating tape.
func NewTape(seed uint64) *Tape {
	return &Tape{
		Seed: seed,
		rng:  &prng{Mix(seed)},
		aux:  &prng{Mix(seed ^ 0xabcdef)},
		Bias: 0.5,
	}
}

// NewReplayTape returns a tape replaying rec.
func NewReplayTape(seed uint64, rec []int) *Tape {
	t := NewTape(seed)
	t.replaying = true
	t.rec = rec
	return t
}

//go:norace
func (t *Tape) Replaying() bool { return t.replaying }

//go:norace
func (t *Tape) note(v int, label string) int {
	t.Out = append(t.Out, v)
	if t.KeepLabels {
		t.Labels = append(t.Labels, label)
	}
	return v
}

//go:norace
func (t *Tape) next(n int) int {
	if t.pos < len(t.rec) {
		v := t.rec[t.pos]
		t.pos++
		if v < 0 {
			v = -v
		}
		return v % n
	}
	t.pos++
	return 0
}

// Choose returns a decision in [0,n).
//
//go:norace
func (t *Tape) Choose(n int, label string) int {
	if n <= 1 {
		return 0
	}
	if t.replaying {
		return t.note(t.next(n), label)
	}
	return t.note(t.rng.Intn(n), label)
}

// ChooseBiased returns 0 with probability Bias, otherwise uniform in [1,n).
//
//go:norace
func (t *Tape) ChooseBiased(n int, label string) int {
	if n <= 1 {
		return 0
	}
	if t.replaying {
		return t.note(t.next(n), label)
	}
	if t.rng.Float64() < t.Bias {
		return t.note(0, label)
	}
	return t.note(1+t.rng.Intn(n-1), label)
}

// Record notes a decision computed by a policy (generate mode only).
//
//go:norace
func (t *Tape) Record(v int, label string) { t.note(v, label) }

// Aux draws an unrecorded value (only used to compute decisions that are then recorded).
//
//go:norace
func (t *Tape) Aux(n int) int {
	if n <= 1 {
		return 0
	}
	return t.aux.Intn(n)
}

// Flip is Choose(2)==1 with probability p in generate mode.
//
//go:norace
func (t *Tape) Flip(p float64, label string) bool {
	if t.replaying {
		return t.note(t.next(2), label) == 1
	}
	if t.rng.Float64() < p {
		return t.note(1, label) == 1
	}
	return t.note(0, label) == 1
}

// Range returns a decision in [lo,hi].
//
//go:norace
func (t *Tape) Range(lo, hi int, label string) int {
	if hi <= lo {
		return lo
	}
	return lo + t.Choose(hi-lo+1, label)
}

// RandReader is a deterministic io.Reader (uuid source) whose state is invisible to the
// race detector.
type RandReader struct{ p prng }

func NewRandReader(seed uint64) *RandReader { return &RandReader{prng{Mix(seed)}} }

//go:norace
func (r *RandReader) Read(b []byte) (int, error) {
	for i := range b {
		b[i] = byte(r.p.next())
	}
	return len(b), nil
}
