package simrt

import (
	"context"
	"errors"
	"fmt"
	"io"
	"io/fs"
	"os"
	"path/filepath"
	"syscall"
	"time"
)

// ---------------------------------------------------------------------------------
// SimPipe: stub of a kernel FIFO as seen by one reader (the daemon) and writers (rsyslog /
// auditd world models).
// ---------------------------------------------------------------------------------

const PipeCapacity = 65536

type SimPipe struct {
	sim  *Sim
	Name string
	base string // used in the event log (the directory may be a random temp dir)

	buf             []byte
	writers         int
	pendingOpens    int // writers that opened while no reader had the FIFO open (in the kernel they wait in open(2) for the reader)
	gen             int // incremented when the reader side is opened again after a close
	everOpened      bool
	readerOpen      bool
	closed          bool // reader side closed
	readErr         error
	openErr         error
	sig             chan struct{} // reader (or opener) is blocked on this
	wsig            chan struct{} // a writer is blocked on this (pipe full)
	BytesRead       int
	ReadCalls       int
	ShortReads      int
	BlockedRead     bool // a Read is currently blocked on an empty pipe
	BlockedOpen     bool // an OpenFile is currently blocked waiting for a writer
	Opens           int
	ReadsAfterClose int
	blocking        bool // Fd() was called: the descriptor left the poller (see File.Fd)
	readDeadline    time.Time
	selfWriter      bool // opened O_RDWR by the reader itself
}

// AddPipe registers a simulated FIFO under path.
func (s *Sim) AddPipe(path string) *SimPipe {
	p := &SimPipe{sim: s, Name: path, base: filepath.Base(path)}
	s.lock()
	s.pipes[path] = p
	s.unlock()
	return p
}

//go:norace
func (p *SimPipe) wakeReader() {
	if p.sig != nil {
		raceDisable()
		close(p.sig)
		raceEnable()
		p.sig = nil
	}
}

//go:norace
func (p *SimPipe) wakeWriter() {
	if p.wsig != nil {
		raceDisable()
		close(p.wsig)
		raceEnable()
		p.wsig = nil
	}
}

// File is what the rewritten ingester sees instead of *os.File.
type File struct {
	p   *SimPipe
	gen int
}

// stale reports whether this handle belongs to an earlier open of the FIFO (closed since).
func (f *File) stale() bool { return f.gen != f.p.gen }

// OpenFile replaces os.OpenFile / os.Open in the named-pipe ingester.
//
//go:norace
func OpenFile(name string, flag int, perm os.FileMode) (*File, error) {
	s := cur.Load()
	if s == nil {
		return nil, &fs.PathError{Op: "open", Path: name, Err: errors.New("simrt: no simulation installed")}
	}
	s.lock()
	p := s.pipes[name]
	s.unlock()
	if p == nil {
		return nil, &fs.PathError{Op: "open", Path: name, Err: syscall.ENOENT}
	}
	_, t, pt := passthrough("pipe.open")
	if !pt {
		s.park(t, "pipe.open", "point")
	}
	p.Opens++
	if p.readerOpen && p.closed {
		// the reader side is opened again after it was closed: a new open file description
		p.gen++
		p.closed, p.readerOpen, p.blocking, p.readDeadline = false, false, false, time.Time{}
		s.Count("pipe.reopened")
	}
	if flag&os.O_RDWR != 0 {
		// opening a FIFO read-write never blocks, and the opener holds a write reference of
		// its own: end-of-stream is never signalled while it keeps the file open
		p.writers++
		p.everOpened = true
		p.selfWriter = true
		s.Count("pipe.opened_rdwr")
	}
	for p.writers == 0 && p.pendingOpens == 0 && p.openErr == nil {
		// a FIFO opened O_RDONLY blocks until a writer has it open
		sig := make(chan struct{})
		p.sig = sig
		p.BlockedOpen = true
		if t != nil {
			t.setSite("pipe.open")
		}
		raceDisable()
		<-sig
		raceEnable()
		p.BlockedOpen = false
		if !pt {
			s.park(t, "pipe.open+", "point")
		}
	}
	if p.openErr != nil {
		return nil, &fs.PathError{Op: "open", Path: name, Err: p.openErr}
	}
	p.readerOpen = true
	p.pendingOpens = 0
	s.Logf("pipe.opened %s", p.base)
	return &File{p: p, gen: p.gen}, nil
}

func Open(name string) (*File, error) { return OpenFile(name, os.O_RDONLY, 0) }

func (f *File) Name() string { return f.p.Name }

// Fd models os.File.Fd: it puts the descriptor into blocking mode, i.e. takes it out of the
// runtime poller. From then on Close can no longer interrupt a Read that is blocked in the
// kernel (the read keeps its reference; close(2) happens when it returns).
func (f *File) Fd() uintptr {
	if f.stale() {
		return ^uintptr(0)
	}
	f.p.blocking = true
	f.p.sim.Count("pipe.fd_blocking_mode")
	return 3
}

// SetReadDeadline models os.File.SetReadDeadline on a pollable FIFO: a Read that is (or
// becomes) blocked returns os.ErrDeadlineExceeded when the (simulated) clock reaches t.
func (f *File) SetReadDeadline(t time.Time) error {
	if f.stale() || f.p.closed {
		return &fs.PathError{Op: "set", Path: f.p.Name, Err: os.ErrClosed}
	}
	if f.p.blocking {
		return &fs.PathError{Op: "set", Path: f.p.Name, Err: os.ErrNoDeadline}
	}
	f.p.readDeadline = t
	return nil
}
func (f *File) SetDeadline(t time.Time) error { return f.SetReadDeadline(t) }

// Read implements the reader side of the FIFO.
//
//go:norace
func (f *File) Read(b []byte) (int, error) {
	p := f.p
	s := p.sim
	_, t, pt := passthrough("pipe.read")
	if !pt {
		s.park(t, "pipe.read", "point")
	}
	p.ReadCalls++
	if p.closed || f.stale() {
		p.ReadsAfterClose++
	}
	for {
		if p.closed || f.stale() {
			return 0, &fs.PathError{Op: "read", Path: p.Name, Err: os.ErrClosed}
		}
		if p.readErr != nil {
			err := p.readErr
			s.Count("pipe.eio")
			s.Logf("pipe.read %s err=%v", p.base, err)
			return 0, &fs.PathError{Op: "read", Path: p.Name, Err: err}
		}
		if len(p.buf) > 0 {
			n := len(b)
			if n > len(p.buf) {
				n = len(p.buf)
			}
			if n > 1 {
				// a read may legally return fewer bytes than are available
				k := s.Tape.ChooseBiased(n, "pipe.short_read")
				if k != 0 {
					n = k
					p.ShortReads++
					s.Count("pipe.short_read")
				}
			}
			copy(b, p.buf[:n])
			p.buf = p.buf[n:]
			p.BytesRead += n
			p.wakeWriter()
			s.Logf("pipe.read %s n=%d", p.base, n)
			return n, nil
		}
		if p.everOpened && p.writers == 0 {
			s.Count("pipe.eof")
			s.Logf("pipe.read %s EOF", p.base)
			return 0, io.EOF
		}
		if !p.readDeadline.IsZero() && !time.Now().Before(p.readDeadline) {
			s.Count("pipe.read_deadline")
			return 0, &fs.PathError{Op: "read", Path: p.Name, Err: os.ErrDeadlineExceeded}
		}
		sig := make(chan struct{})
		p.sig = sig
		p.BlockedRead = true
		if t != nil {
			t.setSite("pipe.read")
		}
		timedOut := false
		raceDisable()
		if p.readDeadline.IsZero() {
			<-sig
		} else {
			tm := time.NewTimer(time.Until(p.readDeadline))
			select {
			case <-sig:
				tm.Stop()
			case <-tm.C:
				timedOut = true
				if p.sig == sig {
					p.sig = nil
				}
			}
		}
		raceEnable()
		p.BlockedRead = false
		if !pt {
			s.park(t, "pipe.read+", "point")
		}
		if timedOut && len(p.buf) == 0 && !p.closed && p.readErr == nil && !(p.everOpened && p.writers == 0) {
			s.Count("pipe.read_deadline")
			return 0, &fs.PathError{Op: "read", Path: p.Name, Err: os.ErrDeadlineExceeded}
		}
	}
}

// Close closes the reader side; a blocked Read returns os.ErrClosed (pollable FIFO).
//
//go:norace
func (f *File) Close() error {
	p := f.p
	if p.closed || f.stale() {
		return &fs.PathError{Op: "close", Path: p.Name, Err: os.ErrClosed}
	}
	p.closed = true
	if p.selfWriter {
		p.selfWriter = false
		p.writers--
	}
	p.sim.Logf("pipe.closed %s", p.base)
	if !(p.blocking && p.BlockedRead) {
		p.wakeReader()
	}
	p.wakeWriter()
	return nil
}

// PipeWriter is the world-model side of the FIFO.
type PipeWriter struct {
	p      *SimPipe
	closed bool
}

// OpenWriter opens the FIFO for writing (unblocks a reader blocked in open).
func (p *SimPipe) OpenWriter() *PipeWriter {
	p.writers++
	p.everOpened = true
	if !p.readerOpen || p.closed {
		p.pendingOpens++
	}
	p.sim.Logf("pipe.writer_open %s", p.base)
	p.wakeReader()
	return &PipeWriter{p: p}
}

// Write appends b; it blocks while the pipe is full. Called from world-model tasks.
//
//go:norace
func (w *PipeWriter) Write(b []byte) (int, error) {
	p := w.p
	s := p.sim
	total := 0
	for len(b) > 0 {
		if w.closed {
			return total, os.ErrClosed
		}
		if p.closed {
			return total, syscall.EPIPE
		}
		room := PipeCapacity - len(p.buf)
		if room == 0 {
			sig := make(chan struct{})
			p.wsig = sig
			s.Count("pipe.writer_blocked_full")
			raceDisable()
			<-sig
			raceEnable()
			Point("pipe.write+")
			continue
		}
		n := len(b)
		if n > room {
			n = room
		}
		p.buf = append(p.buf, b[:n]...)
		b = b[n:]
		total += n
		p.wakeReader()
	}
	s.Logf("pipe.write %s n=%d", p.base, total)
	return total, nil
}

// Close closes this writer; when the last writer closes the reader sees EOF after draining.
func (w *PipeWriter) Close() {
	if w.closed {
		return
	}
	w.closed = true
	w.p.writers--
	w.p.sim.Logf("pipe.writer_close %s", w.p.base)
	w.p.wakeReader()
}

// InjectReadError makes the next (or the currently blocked) Read fail with err.
func (p *SimPipe) InjectReadError(err error) {
	p.readErr = err
	p.wakeReader()
}

// InjectOpenError makes a blocked / future open fail.
func (p *SimPipe) InjectOpenError(err error) {
	p.openErr = err
	p.wakeReader()
}

func (p *SimPipe) Buffered() int      { return len(p.buf) }
func (p *SimPipe) Writers() int       { return p.writers }
func (p *SimPipe) ReaderClosed() bool { return p.closed }
func (p *SimPipe) ReaderOpen() bool   { return p.readerOpen }

// ---------------------------------------------------------------------------------
// SimDisk: stub of the O_APPEND events output file. One Write call = one atomic append.
// ---------------------------------------------------------------------------------

type WriteRec struct {
	Seq   int
	Task  string
	Data  []byte
	At    time.Time
	Event int // global event index at the time of the write
}

type SimDisk struct {
	sim      *Sim
	Path     string
	Initial  []byte // content of the file before the daemon opened it (a restart)
	NoAppend bool   // the daemon opened the file without O_APPEND: writes go to its own offset, starting at 0
	Missing  bool   // the file does not exist (only an open with O_CREATE succeeds)
	Opened   int
	Writes   []WriteRec
	FailAt   int   // 1-based index of the write call that fails (0: never)
	FailErr  error // error returned by failing writes
	FailAll  bool  // every write from FailAt on fails
	Calls    int
	OnWrite  func(rec *WriteRec) // online monitor
	Closed   bool
	StallAt  int           // 1-based index of the write call that stalls (0: never): a slow or hung disk
	StallFor time.Duration // simulated time the stalled write takes
}

func (s *Sim) NewDisk(path string) *SimDisk {
	d := &SimDisk{sim: s, Path: path}
	s.Output = d
	return d
}

//go:norace
func (d *SimDisk) Write(b []byte) (int, error) {
	s := d.sim
	_, t, pt := passthrough("disk.write")
	name := "~sched"
	if t != nil {
		name = t.Name
	}
	if !pt {
		// the scheduler may hold a writer here ("in the syscall")
		s.park(t, "disk.write", "point")
	}
	d.Calls++
	if !pt && d.StallAt > 0 && d.Calls == d.StallAt && d.StallFor > 0 {
		s.Count("disk.stall")
		s.Logf("disk.write #%d by %s stalls for %v", d.Calls, name, d.StallFor)
		Sleep(d.StallFor, "disk.stall")
	}
	if d.FailAt > 0 && (d.Calls == d.FailAt || (d.FailAll && d.Calls >= d.FailAt)) {
		err := d.FailErr
		if err == nil {
			err = syscall.ENOSPC
		}
		s.Count("disk.write_error")
		s.Logf("disk.write #%d by %s FAIL %v", d.Calls, name, err)
		return 0, &fs.PathError{Op: "write", Path: d.Path, Err: err}
	}
	rec := WriteRec{Seq: len(d.Writes), Task: name, Data: append([]byte(nil), b...), At: time.Now(), Event: s.nEvents}
	d.Writes = append(d.Writes, rec)
	s.Logf("disk.write #%d by %s %q", d.Calls, name, b)
	if d.OnWrite != nil {
		d.OnWrite(&d.Writes[len(d.Writes)-1])
	}
	return len(b), nil
}

func (d *SimDisk) WriteString(x string) (int, error) { return d.Write([]byte(x)) }
func (d *SimDisk) Close() error                      { d.Closed = true; return nil }
func (d *SimDisk) Sync() error                       { return nil }
func (d *SimDisk) Name() string                      { return d.Path }

// Content is the file content: with O_APPEND the initial content followed by all successful
// appends; without it the writes overwrite the file from offset 0 onwards.
func (d *SimDisk) Content() []byte {
	out := append([]byte(nil), d.Initial...)
	if !d.NoAppend {
		for _, w := range d.Writes {
			out = append(out, w.Data...)
		}
		return out
	}
	off := 0
	for _, w := range d.Writes {
		for len(out) < off+len(w.Data) {
			out = append(out, 0)
		}
		copy(out[off:], w.Data)
		off += len(w.Data)
	}
	return out
}

// OpenOutputFile replaces os.OpenFile / os.Create in package cmd (the events output).
func OpenOutputFile(name string, flag int, perm os.FileMode) (*SimDisk, error) {
	s := cur.Load()
	if s == nil {
		return nil, fmt.Errorf("simrt: no simulation installed")
	}
	if s.Output == nil {
		s.NewDisk(name)
	}
	d := s.Output
	if d.Missing && flag&os.O_CREATE == 0 {
		return nil, &fs.PathError{Op: "open", Path: name, Err: syscall.ENOENT}
	}
	d.Missing = false
	d.Path = name
	d.Opened++
	if flag&os.O_TRUNC != 0 {
		d.Initial = nil
	}
	if flag&os.O_APPEND == 0 {
		d.NoAppend = true
		s.Count("disk.opened_without_append")
	}
	return d, nil
}

// OpenOutput replaces helpers.OpenAuditLogFileUntilSuccessWithContext in cmd.
func OpenOutput(ctx context.Context, path string, _ any) (*SimDisk, error) {
	s := cur.Load()
	if s == nil {
		return nil, fmt.Errorf("simrt: no simulation installed")
	}
	if err := ctx.Err(); err != nil {
		return nil, err
	}
	if s.Output == nil {
		s.NewDisk(path)
	}
	s.Output.Path = path
	return s.Output, nil
}
