//go:build race

package simrt

import (
	"runtime"
	"unsafe"
)

// RaceBuild reports whether the binary was built with -race.
const RaceBuild = true

func raceDisable() { runtime.RaceDisable() }
func raceEnable()  { runtime.RaceEnable() }

var raceToken [8]byte

// raceTaskToSched publishes everything the calling task did to the scheduler goroutine
// (one-directional edge: tasks never acquire from the scheduler or from each other through
// the simulator, so the detector sees only the repository's own happens-before).
func raceTaskToSched()  { runtime.RaceReleaseMerge(unsafe.Pointer(&raceToken)) }
func raceSchedAcquire() { runtime.RaceAcquire(unsafe.Pointer(&raceToken)) }
