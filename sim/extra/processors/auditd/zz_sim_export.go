package auditd

// Added by /verif through the build overlay only (never part of the repository): exposes
// the parser / reassembler callback so that the simulator can observe the
// reassembler -> correlator boundary directly.

import (
	"context"
	"time"

	"github.com/elastic/go-libaudit/v2"

	"github.com/metal-toolbox/audito-maldito/processors/auditd/sessiontracker"
)

// SimParseAuditLogs runs the real parseAuditLogs.
func SimParseAuditLogs(ctx context.Context, lines <-chan string, reass *libaudit.Reassembler) error {
	return parseAuditLogs(ctx, lines, reass)
}

// SimNewReassemblerCB builds the real reassembler callback around au.
func SimNewReassemblerCB(au sessiontracker.Auditor, errs chan<- error, after time.Time) libaudit.Stream {
	return &reassemblerCB{au: au, errors: errs, after: after}
}

// SimMaintain runs the real maintenance loop.
func SimMaintain(ctx context.Context, r *libaudit.Reassembler, d time.Duration) {
	maintainReassemblerLoop(ctx, r, d)
}

// SimReassemblerParams returns the constants Read uses.
func SimReassemblerParams() (int, time.Duration, time.Duration) {
	return maxEventsInFlight, eventTimeout, reassemblerInterval
}
