package dirreader

// Added by /verif through the build overlay only (never part of the repository): a
// constructor over the package's existing (unexported) file-system and watcher seams.

import (
	"context"
	"io"
	"io/fs"
	"os"

	"github.com/fsnotify/fsnotify"

	"github.com/metal-toolbox/audito-maldito/internal/simrt"
)

// SimFile is what a simulated file system hands out.
type SimFile interface {
	Stat() (fs.FileInfo, error)
	io.ReadSeekCloser
}

// SimFileSystem is the simulated file system.
type SimFileSystem interface {
	Open(filePath string) (SimFile, error)
}

type simFSAdapter struct{ f SimFileSystem }

func (a *simFSAdapter) Open(p string) (statReadSeekCloser, error) {
	f, err := a.f.Open(p)
	if err != nil {
		return nil, err
	}
	return f, nil
}

type simWatcher struct{ ch <-chan fsnotify.Event }

func (w *simWatcher) Events() <-chan fsnotify.Event { return w.ch }
func (w *simWatcher) Close() error                  { return nil }

// SimStartLogDirReader is StartLogDirReader with the directory listing, the event channel
// and the file system supplied by the simulator.
func SimStartLogDirReader(ctx context.Context, dirPath string, entries []os.DirEntry, events <-chan fsnotify.Event, fsys SimFileSystem) *LogDirReader {
	r := &LogDirReader{
		dirPath:       dirPath,
		initFileNames: sortLogNamesOldToNew(entries),
		watcher:       &simWatcher{ch: events},
		fs:            &simFSAdapter{f: fsys},
		lines:         make(chan string),
		initFilesDone: make(chan struct{}),
		done:          make(chan struct{}),
	}
	simrt.Go1("extra:dirreader.loop", r.loop, ctx)
	return r
}
