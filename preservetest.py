#!/usr/bin/env python3
"""preservetest.py: every quick check must exit 0 on every behaviour-preserving variant
(preserving/*.diff applied to a scratch worktree of /repo HEAD)."""
import sys, os, json, subprocess, shutil, tempfile, glob, time
V = os.path.dirname(os.path.abspath(__file__))
m = json.load(open(os.path.join(V, "MANIFEST.json")))
checks = [c["property_id"] for c in m["checks"]]
res = {}
bad = 0
only = sys.argv[1].split(",") if len(sys.argv) > 1 else None
if only and os.path.exists(os.path.join(V, "preserving", "RESULT.json")):
    res = json.load(open(os.path.join(V, "preserving", "RESULT.json")))
for patch in sorted(glob.glob(os.path.join(V, "preserving", "*.diff"))):
    name = os.path.basename(patch)[:-5]
    if only and not any(name.startswith(o) for o in only):
        continue
    scratch = tempfile.mkdtemp(prefix="preserve-")
    try:
        subprocess.run("git -C /repo worktree add -q --detach %s HEAD" % scratch, shell=True, check=True)
        r = subprocess.run("git apply %s" % patch, shell=True, cwd=scratch)
        if r.returncode != 0:
            res[name] = "patch does not apply"; bad += 1; continue
        env = dict(os.environ, GOFLAGS="-mod=mod", GOPROXY="off", GOSUMDB="off")
        r = subprocess.run("go test -vet=off -count=1 ./...", shell=True, cwd=scratch, env=env, stdout=subprocess.PIPE, stderr=subprocess.STDOUT, text=True)
        row = {"suite": r.returncode}
        for c in checks:
            r = subprocess.run("./check %s --no-evidence --workers 8" % c, shell=True, cwd=V, env=dict(os.environ, VERIF_REPO=scratch),
                               stdout=subprocess.PIPE, stderr=subprocess.STDOUT, text=True)
            row[c] = r.returncode
            if r.returncode != 0:
                bad += 1
                print(name, c, "EXIT", r.returncode, r.stdout[-600:], flush=True)
        res[name] = row
        print(name, row, flush=True)
    finally:
        subprocess.run("git -C /repo worktree remove --force %s" % scratch, shell=True)
        shutil.rmtree(scratch, ignore_errors=True)
json.dump(res, open(os.path.join(V, "preserving", "RESULT.json"), "w"), indent=1)
for f in glob.glob(os.path.join(V, "replays", "*.json")):
    os.remove(f)
sys.exit(1 if bad else 0)
