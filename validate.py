#!/usr/bin/env python3
"""Validates MANIFEST.json and every evidence file against the given schemas (tooling venv)."""
import json, sys, glob, os
import jsonschema
V = os.path.dirname(os.path.abspath(__file__))
ok = True
def val(path, schema):
    global ok
    try:
        jsonschema.validate(json.load(open(path)), json.load(open(schema)))
        print("valid:", path)
    except Exception as e:
        ok = False
        print("INVALID:", path, str(e)[:400])
val(os.path.join(V, "MANIFEST.json"), "/root/.vp/MANIFEST.schema.json")
for p in sorted(glob.glob(os.path.join(V, "evidence", "*.json"))):
    val(p, "/root/.vp/EVIDENCE.schema.json")
m = json.load(open(os.path.join(V, "MANIFEST.json")))
ids = [json.loads(l)["id"] for l in open(os.path.join(V, "properties.jsonl"))]
claimed = [c["property_id"] for c in m["checks"]]
na = [c["property_id"] for c in m.get("not_applicable", [])]
print("claimed:", claimed, "n/a:", na, "unlisted:", [i for i in ids if i not in claimed and i not in na])
sys.exit(0 if ok else 1)
